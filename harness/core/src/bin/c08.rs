//! C08 harness: the working tree's `eligibility.rs` is compiled into this binary by `#[path]`
//! (so `is_lottery_won`, which is `pub(crate)`, is the real function) and compared with the Lean
//! model `Lottery.won`; S: monotonicity in draw and stake, zero stake, phi_f = 1 on the
//! implementation; exactness is judged by the Lean side against a 900-bit reference.
#![allow(dead_code, unused_macros, unused_imports)]
pub type Stake = u64;
pub type PhiFValue = f64;

macro_rules! cfg_num_integer { ($($item:item)*) => { $( $item )* }; }
macro_rules! cfg_rug { ($($item:item)*) => {}; }

#[path = "/repo/mithril-stm/src/proof_system/concatenation/eligibility.rs"]
mod eligibility;

#[path = "../common/stmsetup.rs"]
mod stmsetup;
use hutil::{catch, Args, Rng, Sink};
use num_bigint::BigUint;
use num_traits::{One, Zero};

fn won(phi: f64, ev: &[u8; 64], stake: u64, total: u64) -> &'static str {
    let e = *ev;
    match catch(move || eligibility::is_lottery_won(phi, e, stake, total)) {
        Ok(true) => "won",
        Ok(false) => "lost",
        Err(_) => "panic",
    }
}

fn ev_bytes(v: &BigUint) -> [u8; 64] {
    let mut b = v.to_bytes_le();
    b.resize(64, 0);
    b.try_into().unwrap()
}

const P: usize = 1200;

/// floor(exp(x) * 2^P) for x = xn / 2^P (fixed point, rounding down), enough terms for x <= 80
fn exp_fixed(xs: &BigUint) -> BigUint {
    let one = BigUint::one() << P;
    let mut term = one.clone();
    let mut sum = one.clone();
    for j in 1..600u32 {
        term = (&term * xs) >> P;
        term /= BigUint::from(j);
        if term.is_zero() {
            break;
        }
        sum += &term;
    }
    sum
}

/// threshold draw value: floor((1 - exp(-x)) * 2^512) with x = -(stake/total) * ln (ln < 0 given as f64)
fn threshold(ln: f64, stake: u64, total: u64) -> Option<BigUint> {
    if !(ln < 0.0) || !ln.is_finite() || total == 0 {
        return None;
    }
    // exact |ln| as m * 2^e
    let bits = (-ln).to_bits();
    let e = ((bits >> 52) & 0x7ff) as i64;
    let m = if e == 0 { bits & ((1 << 52) - 1) } else { (bits & ((1 << 52) - 1)) | (1 << 52) };
    let exp2 = if e == 0 { -1074 } else { e - 1075 };
    // x * 2^P = m * 2^(exp2 + P) * stake / total
    let sh = exp2 + P as i64;
    if sh < 0 {
        return None;
    }
    let xs = (BigUint::from(m) << (sh as usize)) * BigUint::from(stake) / BigUint::from(total);
    if xs > (BigUint::from(80u32) << P) {
        return None;
    }
    let ex = exp_fixed(&xs);
    // 1 - 1/exp(x), scaled to 2^512
    let one512 = BigUint::one() << 512usize;
    let inv = (BigUint::one() << (P + 512)) / ex; // floor(2^512 / exp(x))
    Some(one512 - inv.min(BigUint::one() << 512usize))
}

struct Ctx<'a> {
    sink: &'a mut Sink,
}

impl<'a> Ctx<'a> {
    fn emit(&mut self, tag: &str, phi: f64, ev: &BigUint, stake: u64, total: u64) -> Option<&'static str> {
        if !self.sink.wanted() {
            self.sink.skip();
            return None;
        }
        let evb = ev_bytes(ev);
        let t0 = std::time::Instant::now();
        let o = won(phi, &evb, stake, total);
        if std::env::var_os("VERIF_TRACE_SLOW").is_some() && t0.elapsed().as_secs_f64() > 1.0 { eprintln!("slow {:.1}s: {} phi={} ev-bits={} stake={} total={} -> {}", t0.elapsed().as_secs_f64(), tag, phi, ev.bits(), stake, total, o); }
        let ln = (1.0 - phi).ln();
        let req = format!(
            "c08.won phi={:016x} ln={:016x} ev={} stake={} total={} obs={}",
            phi.to_bits(), ln.to_bits(), ev, stake, total, o
        );
        let idx = self.sink.case(tag, &req, o);
        // S on the implementation: zero stake, phi_f = 1
        if stake == 0 && o == "won" && phi < 1.0 - 1e-9 {
            self.sink.sfail(idx, "zero-stake", "zero stake won the lottery", &req);
        }
        if phi == 1.0 && o != "won" {
            self.sink.sfail(idx, "phi-one", "phi_f = 1 did not win", &req);
        }
        Some(o)
    }
}

fn main() {
    hutil::quiet_panics();
    let args = Args::parse();
    let mut rng = Rng::new(args.seed);
    let mut sink = Sink::new(&args);
    let max512 = (BigUint::one() << 512usize) - BigUint::one();

    // known finding witness: phi_f = 0.95, full stake, p = 0.945 < 0.95 decided lost
    {
        let p = (BigUint::one() << 512usize) * BigUint::from(945u32) / BigUint::from(1000u32);
        let o = won(0.95, &ev_bytes(&p), 1, 1);
        sink.witness("C08-error-term-large-x", o == "lost", &format!("phi_f=0.95 stake=total p=0.945 -> {}", o));
    }

    let phis: Vec<f64> = vec![
        f64::from_bits(1), 1e-300, 1e-10, 0.001, 0.01, 0.05, 0.2, 0.35, 0.5, 0.65, 0.776, 0.9, 0.93, 0.95, 0.99, 0.9999,
        1.0 - f64::EPSILON * 4.0, 1.0 - f64::EPSILON, 1.0 - f64::EPSILON / 2.0, 1.0,
    ];
    let totals: Vec<u64> = if args.thorough() { vec![1, 2, 10, 1_000_000, 45_000_000_000_000_000, u64::MAX] } else { vec![1, 10, 45_000_000_000_000_000, u64::MAX] };
    let mut ctx = Ctx { sink: &mut sink };
    // corpus: the known-finding witness and its neighbours
    for n in [940u32, 943, 945, 949, 951] {
        let p = (BigUint::one() << 512usize) * BigUint::from(n) / BigUint::from(1000u32);
        ctx.emit("corpus", 0.95, &p, 1, 1);
    }

    // the edges of the domain (never met by the grids below): phi_f outside (0, 1], non-finite phi_f, total stake 0,
    // stake above the total. The model has a branch for each (`f64ToRat = none`, `total = 0`, negative `x`).
    for phi in [0.0f64, -0.0, -0.5, -1e300, -1e30, 1.5, 2.0, f64::NAN, f64::INFINITY, f64::NEG_INFINITY, 1.0 + f64::EPSILON, 1.0 + 2.0 * f64::EPSILON, 1e-320, 0.2] {
        for ev in [BigUint::zero(), BigUint::one(), BigUint::one() << 510usize, max512.clone()] {
            // (a stake far above the total makes one call run for minutes — DESIGN 0.2b —: only a mild excess here)
            for (stake, total) in [(0u64, 0u64), (1, 0), (0, 1), (1, 1), (5, 3), (3, 10)] {
                // phi_f = -1e300 makes x = -690.8 * stake / total: 1000 rounds on rationals of that size take ~25 s per
                // call in this build; one such call is enough (the -1e30 value below takes the same branch in 1 s)
                if phi == -1e300 && stake >= total && total > 0 && !(ev.is_zero() && stake == 1) { continue; }
                ctx.emit("domain-edge", phi, &ev, stake, total);
            }
        }
    }

    let reps = if args.thorough() { 6 } else { 1 };
    let jmax = if args.thorough() { 200 } else { 130 };
    let jstep = if args.thorough() { 3 } else { 13 };
    for &phi in &phis {
        for &total in &totals {
            let mut stakes: Vec<u64> = vec![0, 1, total / 3, total / 2, total - 1, total];
            for _ in 0..reps {
                stakes.push(rng.range(0, total));
            }
            stakes.sort();
            stakes.dedup();
            let mut prev_outcomes: Vec<(u64, BigUint, &'static str)> = vec![];
            for &stake in &stakes {
                let ln = (1.0 - phi).ln();
                // uniform draws
                for _ in 0..reps {
                    let ev = BigUint::from_bytes_le(&rng.bytes(64));
                    ctx.emit("uniform", phi, &ev, stake, total);
                }
                // extremes
                ctx.emit("extreme", phi, &BigUint::zero(), stake, total);
                ctx.emit("extreme", phi, &max512, stake, total);
                // draws concentrated at the threshold
                if let Some(thr) = threshold(ln, stake, total) {
                    let mut last: Option<(BigUint, &'static str)> = None;
                    let mut pts: Vec<BigUint> = vec![];
                    let mut j = 1;
                    while j <= jmax {
                        let d = &thr >> j;
                        if thr >= d { pts.push(&thr - &d); }
                        let up = &thr + &d;
                        if up <= max512 { pts.push(up); }
                        j += jstep;
                    }
                    if args.thorough() || stake == total { pts.push(thr.clone()); }
                    pts.sort();
                    pts.dedup();
                    for ev in pts {
                        if let Some(o) = ctx.emit("near-threshold", phi, &ev, stake, total) {
                            // monotone in the draw: once lost, larger draws never win
                            if let Some((pev, po)) = &last {
                                if *po == "lost" && o == "won" {
                                    let i = ctx.sink.next_index() - 1;
                                    ctx.sink.sfail(i, "mono-draw", &format!("draw {} lost but larger draw {} won", pev, ev),
                                        &format!("phi={} stake={} total={}", phi, stake, total));
                                }
                            }
                            last = Some((ev.clone(), o));
                        }
                    }
                    // monotone in the stake: a draw won with a smaller stake is won with a larger one
                    let probe = &thr - (&thr >> 20usize);
                    if let Some(o) = ctx.emit("stake-probe", phi, &probe, stake, total) {
                        prev_outcomes.push((stake, probe, o));
                    }
                }
            }
            // cross-stake monotonicity: evaluate each probe draw at every larger stake
            for i in 0..prev_outcomes.len() {
                let (s1, ev, o1) = prev_outcomes[i].clone();
                if o1 != "won" { continue; }
                for &s2 in stakes.iter().filter(|s| **s > s1) {
                    if let Some(o2) = ctx.emit("mono-stake", phi, &ev, s2, total) {
                        if o2 != "won" {
                            let k = ctx.sink.next_index() - 1;
                            ctx.sink.sfail(k, "mono-stake", &format!("draw won with stake {} but lost with stake {}", s1, s2),
                                &format!("phi={} ev={} total={}", phi, ev, total));
                        }
                    }
                }
            }
        }
    }
    // ---- purity / determinism: the decision is a function of its four arguments only. The same grid of
    // inputs is evaluated in several orders (each order makes consecutive calls share a different subset of the
    // arguments, which is what a cache keyed on too few of them would confuse); every evaluation must agree
    // with the first one (S) and with the model (K, first order).
    {
        let gphis = [0.05f64, 0.2, 0.4, 0.65, 0.9];
        let gpairs: [(u64, u64); 4] = [(1, 4), (3, 4), (10, 45_000_000), (7, 10)];
        let mut grid: Vec<(f64, u64, u64, BigUint)> = vec![];
        for &phi in &gphis {
            for &(st, tot) in &gpairs {
                if let Some(thr) = threshold((1.0 - phi).ln(), st, tot) {
                    for d in [8usize, 3] {
                        grid.push((phi, st, tot, &thr - (&thr >> d)));
                        grid.push((phi, st, tot, (&thr + (&thr >> d)).min(max512.clone())));
                    }
                }
            }
        }
        let mut first: Vec<&'static str> = vec![];
        for (phi, st, tot, ev) in &grid {
            first.push(ctx.emit("purity", *phi, ev, *st, *tot).unwrap_or("skipped"));
        }
        let orders: Vec<(&str, Box<dyn Fn(&(f64, u64, u64, BigUint)) -> (u64, u64, u64, Vec<u8>)>)> = vec![
            ("by (stake,total) then phi", Box::new(|g| (g.1, g.2, g.0.to_bits(), g.3.to_bytes_be()))),
            ("by draw then (stake,total) then phi", Box::new(|g| (0, g.1, g.0.to_bits(), { let mut v = g.3.to_bytes_be(); v.truncate(4); v }))),
            ("by phi then total then stake", Box::new(|g| (g.0.to_bits(), g.2, g.1, g.3.to_bytes_be()))),
            ("by total then phi", Box::new(|g| (g.2, g.0.to_bits(), g.1, g.3.to_bytes_be()))),
        ];
        if first.iter().all(|o| *o != "skipped") {
            for (name, key) in orders {
                let mut idx: Vec<usize> = (0..grid.len()).collect();
                idx.sort_by_key(|i| key(&grid[*i]));
                for pass in 0..2 {
                    if pass == 1 { idx.reverse(); }
                    for &i in &idx {
                        let (phi, st, tot, ev) = &grid[i];
                        let o = won(*phi, &ev_bytes(ev), *st, *tot);
                        if o != first[i] {
                            let k = ctx.sink.next_index();
                            ctx.sink.sfail(k, "history-dependent", &format!("is_lottery_won(phi_f={}, stake={}, total={}, ev={}) answered {} first and {} when evaluated in the order '{}'", phi, st, tot, ev, first[i], o, name), "purity grid");
                        }
                    }
                }
            }
        }
    }
    // random everything
    let n = if args.thorough() { 50_000 } else { 2_000 };
    for _ in 0..n {
        let phi = match rng.below(4) {
            0 => *rng.pick(&phis),
            1 => (rng.u64() >> 11) as f64 / (1u64 << 53) as f64,
            2 => 1.0 - ((rng.u64() >> 11) as f64 / (1u64 << 53) as f64) * 0.1,
            _ => ((rng.u64() >> 11) as f64 / (1u64 << 53) as f64) * 0.3,
        };
        if !(phi > 0.0 && phi <= 1.0) { continue; }
        let total = match rng.below(3) { 0 => rng.range(1, 1000), 1 => rng.range(1, 1 << 50), _ => rng.u64().max(1) };
        let stake = rng.range(0, total);
        let ev = if rng.bool() {
            BigUint::from_bytes_le(&rng.bytes(64))
        } else {
            match threshold((1.0 - phi).ln(), stake, total) {
                Some(t) => {
                    let j = rng.range(1, 300) as usize;
                    if rng.bool() { &t - (&t >> j) } else { (&t + (&t >> j)).min(max512.clone()) }
                }
                None => BigUint::from_bytes_le(&rng.bytes(64)),
            }
        };
        ctx.emit("random", phi, &ev, stake, total);
    }

    // ---- the signer and the single verifier use exactly this decision: for real registrations, the index set
    // `Signer::create_single_signature` returns is {i < m | won(ev(msg ‖ root, i, sigma), stake, total)} — each index of
    // 0..m is one case (K: the Lean decision on the draw computed HERE from the signature bytes) — and
    // `SingleSignature::verify` accepts it, and rejects it with one lost index added.
    {
        use blake2::{digest::consts::U64, Blake2b, Digest};
        use mithril_stm::Parameters;
        let nworlds = if args.thorough() { 60 } else { 10 };
        for w in 0..nworlds {
            let n = rng.range(1, 5) as usize;
            let stakes: Vec<u64> = (0..n).map(|_| match rng.below(3) { 0 => 1, 1 => rng.range(1, 100), _ => rng.range(1, 1 << 40) }).collect();
            let m = rng.range(3, 16);
            let phi = *rng.pick(&[0.05, 0.2, 0.5, 0.65, 0.9, 1.0]);
            let params = Parameters { m, k: 1, phi_f: phi };
            let f = stmsetup::fixture(args.seed.wrapping_mul(77) + w as u64, &stakes, params);
            let avk_v = serde_json::to_value(f.avk.to_concatenation_aggregate_verification_key()).unwrap();
            let root: Vec<u8> = avk_v["mt_commitment"]["root"].as_array().unwrap().iter().map(|x| x.as_u64().unwrap() as u8).collect();
            let total = avk_v["total_stake"].as_u64().unwrap();
            let msg = rng.bytes(32);
            for (si, signer) in f.signers.iter().enumerate() {
                // a signer that wins nothing returns an error: sign several messages until one gives a signature, keep the empty case too
                let sig = signer.create_single_signature(&msg).ok();
                let claimed: Vec<u64> = sig.as_ref().map(|s| s.get_concatenation_signature_indices()).unwrap_or_default();
                let Some(sig) = sig else { continue };
                let sigma = sig.get_concatenation_signature_sigma().to_bytes();
                let (vk, stake) = f.by_slot[sig.signer_index as usize];
                let mut lost_index = None;
                for i in 0..m {
                    let mut h = Blake2b::<U64>::new();
                    h.update(b"map"); h.update(&msg); h.update(&root); h.update(i.to_le_bytes()); h.update(sigma);
                    let ev = BigUint::from_bytes_le(&h.finalize());
                    let o = if claimed.contains(&i) { "won" } else { "lost" };
                    if o == "lost" && lost_index.is_none() { lost_index = Some(i); }
                    if !ctx.sink.wanted() { ctx.sink.skip(); continue; }
                    let ln = (1.0 - phi).ln();
                    let req = format!("c08.won phi={:016x} ln={:016x} ev={} stake={} total={} obs={}", phi.to_bits(), ln.to_bits(), ev, stake, total, o);
                    let idx = ctx.sink.case("signer-index", &req, o);
                    // S: the crate-private decision function on the same draw says the same
                    let direct = won(phi, &ev_bytes(&ev), stake, total);
                    if direct != o { ctx.sink.sfail(idx, "signer-index-set", &format!("world {} signer {}: index {} is {} the signature's index set but is_lottery_won says {}", w, si, i, if o == "won" { "in" } else { "not in" }, direct), &req); }
                }
                // the single verifier accepts the produced signature and rejects it with one lost index added
                let ok = sig.verify(&params, &vk, &stake, &f.avk, &msg).is_ok();
                let i = ctx.sink.next_index();
                if !ok { ctx.sink.sfail(i, "honest-single-invalid", &format!("world {} signer {}: the produced single signature does not verify", w, si), "signer phase"); }
                if let Some(li) = lost_index {
                    let mut forged = sig.clone();
                    let mut idx = claimed.clone(); idx.push(li);
                    forged.set_concatenation_signature_indices(&idx);
                    if forged.verify(&params, &vk, &stake, &f.avk, &msg).is_ok() { ctx.sink.sfail(i, "lost-index-accepted", &format!("world {} signer {}: single verification accepts the lost index {}", w, si, li), "signer phase"); }
                }
            }
        }
    }
    sink.finish();
}
