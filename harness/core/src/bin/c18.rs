//! C18 harness: API-atomic schedules executed on the real `ResourcePool` from one OS thread
//! (any number of logical users), compared call by call with the Lean model `Pool.step`;
//! S: freshness of every hand-out and the bound, evaluated on the implementation; plus a short
//! real-thread run for the bound and for wake-up.
use hutil::{Args, Rng, Sink};
use mithril_common::StdResult;
use mithril_resource_pool::{Reset, ResourcePool, ResourcePoolItem};
use std::collections::BTreeMap;
use std::sync::atomic::{AtomicBool, AtomicU64, Ordering};
use std::sync::Arc;
use std::time::Duration;

struct R {
    gen: u64,
}
/// `Reset::reset` of the harness resource is a yield point of the sub-API schedules: when a gate is installed it is
/// called with the resource's generation (the API-atomic schedules run with no gate)
static RESET_GATE: std::sync::Mutex<Option<Arc<dyn Fn(u64) + Send + Sync>>> = std::sync::Mutex::new(None);
impl Reset for R {
    fn reset(&mut self) -> StdResult<()> {
        let gate = RESET_GATE.lock().unwrap().clone();
        if let Some(g) = gate {
            g(self.gen);
        }
        Ok(())
    }
}

#[derive(Clone, Debug)]
enum Op {
    Acq(u64),
    Gbi(u64),
    Drop(u64),
    Set(u64),
    Clr,
    Rst,
    Gb(u64, u64),
    New,
}

fn show(op: &Op) -> String {
    match op {
        Op::Acq(t) => format!("(acq,{})", t),
        Op::Gbi(t) => format!("(gbi,{})", t),
        Op::Drop(t) => format!("(drop,{})", t),
        Op::Set(d) => format!("(set,{})", d),
        Op::Clr => "(clr)".into(),
        Op::Rst => "(rst)".into(),
        Op::Gb(g, d) => format!("(gb,{},{})", g, d),
        Op::New => "(new)".into(),
    }
}

static OUTSIDE: AtomicU64 = AtomicU64::new(0);

struct Outcome {
    trace: String,
    sfails: Vec<(String, String)>,
}

/// run a schedule on the real pool; `init` = generations of the initial resources
fn execute(size: usize, init: &[u64], ops: &[Op]) -> Outcome {
    let pool = ResourcePool::<R>::new(size, init.iter().map(|g| R { gen: *g }).collect());
    let mut held: BTreeMap<u64, ResourcePoolItem<'_, R>> = BTreeMap::new();
    let mut out: Vec<String> = vec![];
    let mut sfails = vec![];
    let mut in_window = false; // between set_discriminant and the next clear
    let mut raced = false; // an acquire happened inside a window
    let mut init_stale = init.iter().any(|g| *g != 0) || init.len() > size;
    let mut misuse = false; // a bare set_discriminant: the two-call refresh the provers no longer use
    for op in ops {
        let o = match op {
            Op::Acq(t) => match pool.acquire_resource(Duration::from_micros(100)) {
                Ok(item) => {
                    let gen = item.gen;
                    let tag = item.discriminant();
                    let disc = pool.discriminant().unwrap();
                    if in_window {
                        raced = true;
                    }
                    if gen != disc && !in_window {
                        let class = if raced && misuse { "outside-protocol" } else if init_stale { "ill-formed-start" } else { "stale-handout" };
                        sfails.push((class.to_string(), format!("acquire by user {} returned a resource of generation {} under discriminant {}", t, gen, disc)));
                    }
                    held.insert(*t, item);
                    format!("a({},{})", gen, tag)
                }
                Err(_) => "t".to_string(),
            },
            Op::Gbi(t) => {
                if let Some(item) = held.remove(t) {
                    pool.give_back_resource_pool_item(item).unwrap();
                }
                "-".into()
            }
            Op::Drop(t) => {
                if let Some(item) = held.remove(t) {
                    drop(item);
                }
                "-".into()
            }
            Op::Set(d) => {
                pool.set_discriminant(*d).unwrap();
                in_window = true;
                misuse = true;
                "-".into()
            }
            Op::New => {
                // at discriminant u64::MAX the addition overflows under the lock (panic + poisoned mutex in this profile)
                let _ = hutil::catch(std::panic::AssertUnwindSafe(|| pool.start_new_generation().map(|_| ())));
                "-".into()
            }
            Op::Clr => {
                let _ = hutil::catch(std::panic::AssertUnwindSafe(|| pool.clear())); // `clear` unwraps the lock
                in_window = false;
                "-".into()
            }
            Op::Rst => {
                let _ = pool.reset_available_resources();
                "-".into()
            }
            Op::Gb(g, d) => {
                if g != d {
                    init_stale = true; // caller hands in a resource under a foreign discriminant
                }
                let _ = pool.give_back_resource(R { gen: *g }, *d);
                "-".into()
            }
        };
        let c = match pool.count() {
            Ok(c) => c,
            Err(_) => { out.push("p".to_string()); continue; } // poisoned: nothing can be observed any more
        };
        if c > size && init.len() <= size {
            sfails.push(("overfull".to_string(), format!("count {} exceeds size {}", c, size)));
        }
        out.push(format!("{}/{}", o, c));
    }
    // keep the items alive until here so that no implicit drop changes the trace
    held.clear();
    Outcome { trace: out.join(";"), sfails }
}

fn emit(sink: &mut Sink, tag: &str, size: usize, init: &[u64], ops: &[Op]) -> bool {
    if !sink.wanted() {
        sink.skip();
        return false;
    }
    let o = execute(size, init, ops);
    let req = format!(
        "c18.run size={} init={} ops=[{}]",
        size,
        hutil::list(init),
        ops.iter().map(show).collect::<Vec<_>>().join(",")
    );
    let idx = sink.case(tag, &req, &o.trace);
    let failed = o.sfails.iter().any(|(c, _)| c != "outside-protocol");
    for (c, w) in o.sfails {
        // the two-call refresh of the API is not what the provers do any more: counted, not judged
        if c == "outside-protocol" { OUTSIDE.fetch_add(1, Ordering::Relaxed); continue; }
        sink.sfail(idx, &c, &w, &req);
    }
    failed
}

/// random schedule built from the protocol the prover follows, with interference
fn gen_schedule(rng: &mut Rng, size: usize, len: usize, users: u64, atomic_refresh: bool) -> Vec<Op> {
    let mut ops = vec![];
    let mut disc = 0u64;
    let mut holding: Vec<u64> = vec![];
    let mut pending: Vec<Op> = vec![]; // remaining steps of a refresh in progress
    while ops.len() < len {
        if !pending.is_empty() && rng.chance(2, 3) {
            ops.push(pending.remove(0));
            continue;
        }
        match rng.below(10) {
            0..=3 => {
                let free: Vec<u64> = (0..users).filter(|u| !holding.contains(u)).collect();
                if let Some(t) = free.get(rng.below(free.len().max(1) as u64) as usize) {
                    ops.push(Op::Acq(*t));
                    holding.push(*t); // may time out; then later give-back is a no-op on both sides
                }
            }
            4..=5 => {
                if !holding.is_empty() {
                    let t = holding.remove(rng.below(holding.len() as u64) as usize);
                    ops.push(Op::Gbi(t));
                }
            }
            6..=7 => {
                if !holding.is_empty() {
                    let t = holding.remove(rng.below(holding.len() as u64) as usize);
                    ops.push(Op::Drop(t));
                }
            }
            8 => {
                if pending.is_empty() {
                    disc += 1;
                    if atomic_refresh {
                        // the provers' protocol: one-step generation change; the refill may interleave with anything
                        ops.push(Op::New);
                    } else {
                        // the two-call refresh of the pool's API (what the provers did before the repair)
                        pending.push(Op::Set(disc));
                        pending.push(Op::Clr);
                    }
                    for _ in 0..size {
                        pending.push(Op::Gb(disc, disc));
                    }
                }
            }
            _ => ops.push(Op::Rst),
        }
    }
    // timeouts leave `holding` optimistic: harmless. Drain at the end with fresh users.
    for p in pending {
        ops.push(p);
    }
    for i in 0..(size as u64 + 1) {
        ops.push(Op::Acq(1000 + i));
    }
    ops
}

fn enumerate(sink: &mut Sink, size: usize, depth: usize, prefix: &mut Vec<Op>, alphabet: &[Op]) {
    if prefix.len() == depth {
        let mut ops = prefix.clone();
        for i in 0..(size as u64 + 1) {
            ops.push(Op::Acq(1000 + i));
        }
        emit(sink, "exhaustive", size, &vec![0; size], &ops);
        return;
    }
    for a in alphabet {
        // skip double acquire by the same user (the model's held-list would shadow)
        if let Op::Acq(t) = a {
            let mut holds = false;
            for p in prefix.iter() {
                match p {
                    Op::Acq(u) if u == t => holds = true,
                    Op::Gbi(u) | Op::Drop(u) if u == t => holds = false,
                    _ => {}
                }
            }
            if holds {
                continue;
            }
        }
        prefix.push(a.clone());
        enumerate(sink, size, depth, prefix, alphabet);
        prefix.pop();
    }
}

fn main() {
    let args = Args::parse();
    let mut rng = Rng::new(args.seed);
    let mut sink = Sink::new(&args);

    // --- corpus: witnesses of the findings --------------------------------------------------
    // fixed finding: explicit give-back of an item acquired before a refresh
    let w_fixed = vec![Op::Acq(0), Op::Set(1), Op::Clr, Op::Gbi(0), Op::Gb(1, 1), Op::Gb(1, 1), Op::Acq(1), Op::Acq(2), Op::Acq(3)];
    emit(&mut sink, "corpus", 2, &[0, 0], &w_fixed);
    // fixed finding (tag race): the provers' refresh is now ONE call; the same racing history with it
    let w_race = vec![Op::Acq(0), Op::New, Op::Drop(0), Op::Gb(1, 1), Op::Acq(1), Op::Acq(2)];
    let o = execute(2, &[0, 0], &w_race);
    let reproduced = o.sfails.iter().any(|(c, _)| c == "stale-handout");
    sink.witness("C18-tag-race", reproduced, &o.trace);
    emit(&mut sink, "corpus", 2, &[0, 0], &w_race);
    // … and the two-call refresh of the API (outside the provers' protocol now), for K
    emit(&mut sink, "corpus", 2, &[0, 0], &[Op::Set(1), Op::Acq(0), Op::Clr, Op::Drop(0), Op::Acq(1)]);

    // the generation counter at the end of its range, and a pool built with more resources than its size
    hutil::quiet_panics();
    emit(&mut sink, "corpus", 1, &[0], &[Op::Set(u64::MAX), Op::New, Op::Gb(0, 0), Op::Acq(0), Op::Clr, Op::Rst]);
    emit(&mut sink, "corpus", 1, &[0], &[Op::Set(u64::MAX - 1), Op::New, Op::Gb(u64::MAX, u64::MAX), Op::Acq(0), Op::Drop(0), Op::New, Op::Acq(1)]);
    emit(&mut sink, "corpus", 1, &[0, 0, 0], &[Op::Acq(0), Op::Drop(0), Op::Acq(1), Op::Acq(2), Op::Acq(3), Op::Gbi(1), Op::Gbi(2), Op::Gbi(3)]);

    // --- the protocol itself, read from the working tree: the calls compute_cache makes on the pool ----
    for (file, tag) in [("/repo/mithril-aggregator/src/services/prover.rs", "protocol-prover"), ("/repo/mithril-aggregator/src/services/prover_legacy.rs", "protocol-prover-legacy")] {
        let src = std::fs::read_to_string(file).unwrap_or_default();
        let body = src.rsplit("async fn compute_cache").next().unwrap_or("");
        // up to the end of the function: the next line starting with four spaces and a closing brace
        let body = body.split("\n    }\n").next().unwrap_or("");
        let mut calls: Vec<String> = vec![];
        for part in body.split("mk_map_pool").skip(1) {
            let rest = part.trim_start().trim_start_matches('\n').trim_start();
            if let Some(r) = rest.strip_prefix('.') {
                let name: String = r.chars().take_while(|c| c.is_alphanumeric() || *c == '_').collect();
                if name != "size" && name != "count" && calls.last() != Some(&name) { calls.push(name); }
            }
        }
        sink.case(tag, "c18.protocol", &calls.join(";"));
    }

    // --- exhaustive short schedules ---------------------------------------------------------
    let alphabet = vec![
        Op::Acq(0), Op::Acq(1), Op::Gbi(0), Op::Gbi(1), Op::Drop(0), Op::Drop(1),
        Op::Set(1), Op::Clr, Op::Gb(1, 1), Op::Gb(0, 0), Op::Rst, Op::New,
    ];
    let depth = if args.thorough() { 6 } else { 4 };
    for size in 1..=2usize {
        enumerate(&mut sink, size, depth, &mut vec![], &alphabet);
    }

    // --- random protocol-shaped schedules ---------------------------------------------------
    let n = if args.thorough() { 30_000 } else { 1_500 };
    for i in 0..n {
        let size = rng.range(1, 4) as usize;
        let users = rng.range(1, 6);
        let len = rng.range(5, 60) as usize;
        let atomic = i % 2 == 0;
        let ops = gen_schedule(&mut rng, size, len, users, atomic);
        let init: Vec<u64> = vec![0; rng.range(0, size as u64) as usize];
        let failed = emit(&mut sink, if atomic { "random-atomic-refresh" } else { "random-split-refresh" }, size, &init, &ops);
        let _ = failed;
    }

    // --- real threads: the bound and wake-up (a test, supporting evidence) -------------------
    if sink.wanted() {
        let size = 1usize;
        let pool = Arc::new(ResourcePool::<R>::new(size, vec![]));
        let stop = Arc::new(AtomicBool::new(false));
        let max_seen = Arc::new(AtomicU64::new(0));
        let mut hs = vec![];
        for _ in 0..8 {
            let (p, s, m) = (pool.clone(), stop.clone(), max_seen.clone());
            hs.push(std::thread::spawn(move || {
                while !s.load(Ordering::Relaxed) {
                    p.give_back_resource(R { gen: 0 }, 0).unwrap();
                    let c = p.count().unwrap() as u64;
                    m.fetch_max(c, Ordering::Relaxed);
                    if let Ok(it) = p.acquire_resource(Duration::from_millis(1)) {
                        let mut it = it;
                        let _ = &mut it;
                        std::mem::forget(it); // do not give it back: keeps the pool oscillating around empty
                    }
                }
            }));
        }
        std::thread::sleep(Duration::from_millis(if args.thorough() { 5000 } else { 800 }));
        stop.store(true, Ordering::Relaxed);
        for h in hs {
            h.join().unwrap();
        }
        let m = max_seen.load(Ordering::Relaxed);
        sink.note("threads_bound_max_count_seen", &m.to_string());
        if m > size as u64 {
            let i = sink.next_index();
            sink.sfail(i, "overfull-concurrent", &format!("8 threads: count {} > size {}", m, size), "real-thread give_back_resource storm on a pool of size 1");
        }
        // sub-API schedule on real threads through the cfg-guarded sync point: thread A is parked
        // after the bound test and before its push; thread B gives back meanwhile.
        {
            use mithril_resource_pool::verif_hooks;
            let first = Arc::new(AtomicBool::new(true));
            let parked = Arc::new(AtomicBool::new(false));
            let release = Arc::new(AtomicBool::new(false));
            let (f, pk, rl) = (first.clone(), parked.clone(), release.clone());
            verif_hooks::set_sync_hook(Some(Arc::new(move |name: &str| {
                if name == "give_back_resource:before_lock" && f.swap(false, Ordering::SeqCst) {
                    pk.store(true, Ordering::SeqCst);
                    let t0 = std::time::Instant::now();
                    while !rl.load(Ordering::SeqCst) && t0.elapsed() < Duration::from_secs(30) {
                        std::thread::sleep(Duration::from_millis(1));
                    }
                }
            })));
            let pool3 = Arc::new(ResourcePool::<R>::new(1, vec![]));
            let pa = pool3.clone();
            let a = std::thread::spawn(move || pa.give_back_resource(R { gen: 0 }, 0).unwrap());
            let t0 = std::time::Instant::now();
            while !parked.load(Ordering::SeqCst) && t0.elapsed() < Duration::from_secs(25) {
                std::thread::sleep(Duration::from_millis(1));
            }
            let was_parked = parked.load(Ordering::SeqCst);
            let pb = pool3.clone();
            let b = std::thread::spawn(move || pb.give_back_resource(R { gen: 0 }, 0).unwrap());
            std::thread::sleep(Duration::from_millis(100)); // B either finishes (no lock held by A) or blocks on the lock
            release.store(true, Ordering::SeqCst);
            a.join().unwrap();
            b.join().unwrap();
            verif_hooks::set_sync_hook(None);
            let c = pool3.count().unwrap();
            sink.note("subapi_two_givebacks", &format!("parked={} count={}", was_parked, c));
            if c > 1 {
                let i = sink.next_index();
                sink.sfail(i, "overfull-concurrent", &format!("two interleaved give-backs left {} resources in a pool of size 1", c),
                    "A: give_back_resource parked before push; B: give_back_resource; release A");
            }
        }
        // sub-API schedule 2: a give-back of a generation-0 resource is parked inside give_back_resource (before it
        // takes the lock); the generation changes meanwhile; the give-back resumes BEFORE the refill. The stale
        // resource must be refused (the generation test has to be made under the lock, next to the push).
        for explicit in [true, false] {
            use mithril_resource_pool::verif_hooks;
            let first = Arc::new(AtomicBool::new(true));
            let parked = Arc::new(AtomicBool::new(false));
            let release = Arc::new(AtomicBool::new(false));
            let (f, pk, rl) = (first.clone(), parked.clone(), release.clone());
            verif_hooks::set_sync_hook(Some(Arc::new(move |name: &str| {
                if name == "give_back_resource:before_lock" && f.swap(false, Ordering::SeqCst) {
                    pk.store(true, Ordering::SeqCst);
                    let t0 = std::time::Instant::now();
                    while !rl.load(Ordering::SeqCst) && t0.elapsed() < Duration::from_secs(30) {
                        std::thread::sleep(Duration::from_millis(1));
                    }
                }
            })));
            let pool4 = Arc::new(ResourcePool::<R>::new(1, vec![R { gen: 0 }]));
            let pa = pool4.clone();
            let a = std::thread::spawn(move || {
                // (generous time-outs: the machine may be busy; nothing here depends on timing for its verdict)
                let item = pa.acquire_resource(Duration::from_secs(20)).unwrap();
                if explicit { pa.give_back_resource_pool_item(item).unwrap(); } else { drop(item); }
            });
            let t0 = std::time::Instant::now();
            while !parked.load(Ordering::SeqCst) && t0.elapsed() < Duration::from_secs(25) {
                std::thread::sleep(Duration::from_millis(1));
            }
            let was_parked = parked.load(Ordering::SeqCst);
            let d = pool4.start_new_generation().unwrap();
            release.store(true, Ordering::SeqCst);
            a.join().unwrap();
            verif_hooks::set_sync_hook(None);
            pool4.give_back_resource(R { gen: d }, d).unwrap();
            let got = pool4.acquire_resource(Duration::from_millis(100)).map(|i| { let g = i.gen; std::mem::forget(i); g }).ok();
            sink.note(if explicit { "subapi_stale_giveback_explicit" } else { "subapi_stale_giveback_drop" }, &format!("parked={} handed_out={:?} discriminant={}", was_parked, got, d));
            if got != Some(d) {
                let i = sink.next_index();
                sink.sfail(i, "stale-handout", &format!("a give-back parked before its lock, a generation change, the give-back resumed, refill: the pool handed out generation {:?} under discriminant {}", got, d),
                    "A: acquire(gen 0), give back -> parked at give_back_resource:before_lock; main: start_new_generation; release A; refill; acquire");
            }
        }
        // sub-API schedule 3: every `Reset::reset` call made by `reset_available_resources`, `give_back_resource`,
        // `give_back_resource_pool_item` or a drop is a point at which another thread runs the prover's refresh
        // (`start_new_generation`, refill with the new generation, one acquire so that a slot is free). The caller is
        // parked inside the n-th reset until the refresh is over, or for 200 ms when the refresh can not run meanwhile
        // (the pool's lock is held around the reset: the refresh then simply comes afterwards). Whatever the pool hands
        // out afterwards must be of the generation in force, and the bound must hold.
        let mut subapi3 = 0u32;
        for (what, nidle) in [("reset_available_resources", 3usize), ("reset_available_resources", 2), ("give_back_resource_pool_item", 1), ("drop", 1)] {
            for nth in 0..nidle {
                for take_one in [true, false] {
                    let size = 3usize;
                    let pool5 = Arc::new(ResourcePool::<R>::new(size, (0..nidle).map(|_| R { gen: 0 }).collect()));
                    let calls = Arc::new(AtomicU64::new(0));
                    let parked = Arc::new(AtomicBool::new(false));
                    let release = Arc::new(AtomicBool::new(false));
                    let (cl, pk, rl) = (calls.clone(), parked.clone(), release.clone());
                    *RESET_GATE.lock().unwrap() = Some(Arc::new(move |gen: u64| {
                        if gen == 0 && cl.fetch_add(1, Ordering::SeqCst) == nth as u64 {
                            pk.store(true, Ordering::SeqCst);
                            let t0 = std::time::Instant::now();
                            while !rl.load(Ordering::SeqCst) && t0.elapsed() < Duration::from_millis(200) {
                                std::thread::sleep(Duration::from_millis(1));
                            }
                        }
                    }));
                    let pa = pool5.clone();
                    let a = std::thread::spawn(move || match what {
                        "reset_available_resources" => { let _ = pa.reset_available_resources(); }
                        "give_back_resource_pool_item" => { let it = pa.acquire_resource(Duration::from_secs(20)).unwrap(); let _ = pa.give_back_resource_pool_item(it); }
                        _ => { let it = pa.acquire_resource(Duration::from_secs(20)).unwrap(); drop(it); }
                    });
                    let t0 = std::time::Instant::now();
                    while !parked.load(Ordering::SeqCst) && t0.elapsed() < Duration::from_secs(25) {
                        std::thread::sleep(Duration::from_millis(1));
                    }
                    let was_parked = parked.load(Ordering::SeqCst);
                    let (pc, rl2) = (pool5.clone(), release.clone());
                    let c = std::thread::spawn(move || {
                        let d = pc.start_new_generation().unwrap();
                        for _ in 0..size { pc.give_back_resource(R { gen: d }, d).unwrap(); }
                        if take_one { if let Ok(i) = pc.acquire_resource(Duration::from_millis(500)) { std::mem::forget(i); } }
                        rl2.store(true, Ordering::SeqCst);
                        d
                    });
                    a.join().unwrap();
                    let d = c.join().unwrap();
                    *RESET_GATE.lock().unwrap() = None;
                    let cnt = pool5.count().unwrap();
                    let mut handed = vec![];
                    while let Ok(i) = pool5.acquire_resource(Duration::from_millis(20)) { handed.push(i.gen); std::mem::forget(i); }
                    let desc = format!("{} on {} idle generation-0 resources parked inside its reset #{}; meanwhile: start_new_generation, refill x{}{}; then drain", what, nidle, nth, size, if take_one { ", one acquire" } else { "" });
                    subapi3 += 1;
                    if handed.iter().any(|g| *g != d) {
                        let i = sink.next_index();
                        sink.sfail(i, "stale-handout", &format!("the pool handed out generations {:?} under discriminant {} (parked={})", handed, d, was_parked), &desc);
                    }
                    if cnt > size {
                        let i = sink.next_index();
                        sink.sfail(i, "overfull-concurrent", &format!("{} resources in a pool of size {}", cnt, size), &desc);
                    }
                }
            }
        }
        sink.note("subapi3_schedules (a refresh inside every Reset::reset call)", &subapi3.to_string());
        // wake-up: a blocked acquirer gets the resource pushed later
        let pool2 = Arc::new(ResourcePool::<R>::new(1, vec![]));
        let p2 = pool2.clone();
        let waiter = std::thread::spawn(move || p2.acquire_resource(Duration::from_millis(3000)).map(|i| i.gen).ok());
        std::thread::sleep(Duration::from_millis(50));
        pool2.give_back_resource(R { gen: 0 }, 0).unwrap();
        let got = waiter.join().unwrap();
        sink.note("wake_up", &format!("{:?}", got));
        if got != Some(0) {
            let i = sink.next_index();
            sink.sfail(i, "wake", "blocked acquirer was not woken by a give-back", "wake-up test");
        }
    }
    sink.note("stale_handouts_in_schedules_using_the_two_call_refresh_of_the_api_outside_the_provers_protocol", &OUTSIDE.load(Ordering::Relaxed).to_string());
    sink.finish();
}
