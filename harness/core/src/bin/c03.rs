//! C03 harness (common verifier): real `MithrilCertificateVerifier::verify_certificate_chain` over a
//! retriever controlled by the harness (an untrusted provider) versus the Lean model `Chain.verifyChain`.
//! Oracle bits per served certificate come from the real primitives (content hash, protocol-message
//! digest, STM multi-signature, Ed25519 genesis signature). S: accepted ⇒ the served certificates form a
//! valid chain to a genesis certificate under the configured key (walked here, independently).
use async_trait::async_trait;
use hutil::{Args, Rng, Sink};
use mithril_common::certificate_chain::{CertificateRetriever, CertificateRetrieverError, CertificateVerifier, CertificateVerifierError, MithrilCertificateVerifier};
use mithril_common::crypto_helper::{GenesisEd25519Signer, GenesisSigner, GenesisVerifier, ProtocolAggregateVerificationKeyForConcatenation};
use mithril_common::entities::{Certificate, CertificateSignature, Epoch, ProtocolMessagePartKey};
use mithril_common::test::builder::{CertificateChainBuilder, CertificateChainingMethod};
use std::collections::{BTreeMap, HashMap};
use std::sync::Arc;

struct MapRetriever(HashMap<String, Certificate>);
#[async_trait]
impl CertificateRetriever for MapRetriever {
    async fn get_certificate_details(&self, h: &str) -> Result<Certificate, CertificateRetrieverError> {
        self.0.get(h).cloned().ok_or_else(|| CertificateRetrieverError(anyhow::anyhow!("not found")))
    }
}

struct Ids(BTreeMap<String, usize>);
impl Ids {
    fn id(&mut self, s: &str) -> usize {
        let n = self.0.len() + 1;
        *self.0.entry(s.to_string()).or_insert(n)
    }
}

struct Bits { content: bool, signed: bool, epoch_part: bool, multisig: bool, genesis: bool }

fn bits(c: &Certificate, gv: &GenesisVerifier) -> Bits {
    let content = c.try_compute_hash().map(|h| h == c.hash).unwrap_or(false);
    let signed = c.protocol_message.compute_hash() == c.signed_message;
    let epoch_part = c.protocol_message.get_message_part(&ProtocolMessagePartKey::CurrentEpoch).map(|e| *e == c.epoch.to_string()).unwrap_or(false);
    let (multisig, genesis) = match &c.signature {
        CertificateSignature::MultiSignature(_, sig) => (
            sig.verify(c.signed_message.as_bytes(), &c.create_aggregate_verification_key(), &c.metadata.protocol_parameters.clone().into(), None, None).is_ok(),
            false,
        ),
        CertificateSignature::GenesisSignature(sig) => (false, gv.to_ed25519_verification_key().verify(c.signed_message.as_bytes(), sig).is_ok()),
    };
    Bits { content, signed, epoch_part, multisig, genesis }
}

fn rec(c: &Certificate, ids: &mut Ids, gv: &GenesisVerifier) -> String {
    let b = bits(c, gv);
    let next_avk = c.protocol_message.get_message_part(&ProtocolMessagePartKey::NextAggregateVerificationKey)
        .and_then(|s| ProtocolAggregateVerificationKeyForConcatenation::try_from(s.as_str()).ok())
        .map(|k| ids.id(&format!("avk:{}", k.to_json_hex().unwrap())));
    let next_params = c.protocol_message.get_message_part(&ProtocolMessagePartKey::NextProtocolParameters).map(|s| ids.id(&format!("pp:{}", s)));
    let o = |x: Option<usize>| x.map(|v| v.to_string()).unwrap_or("none".into());
    format!(
        "({},{},{},{},{},{},{},{},[{},{},{},{},{}])",
        ids.id(&format!("h:{}", c.hash)), ids.id(&format!("h:{}", c.previous_hash)), c.epoch.0,
        ids.id(&format!("avk:{}", c.aggregate_verification_key.to_json_hex().unwrap())),
        ids.id(&format!("pp:{}", c.metadata.protocol_parameters.compute_hash())),
        o(next_avk), o(next_params), c.is_genesis() as u8,
        b.content as u8, b.signed as u8, b.epoch_part as u8, b.multisig as u8, b.genesis as u8
    )
}

fn class(e: &anyhow::Error) -> &'static str {
    for cause in e.chain() {
        if let Some(v) = cause.downcast_ref::<CertificateVerifierError>() {
            return match v {
                CertificateVerifierError::VerifyMultiSignature(_) => "multiSig",
                CertificateVerifierError::CertificateGenesis(_) => "genesisSig",
                CertificateVerifierError::CertificateHashUnmatch => "hash",
                CertificateVerifierError::CertificateChainPreviousHashUnmatch => "prevHash",
                CertificateVerifierError::CertificateProtocolMessageUnmatch => "signedMsg",
                CertificateVerifierError::CertificateChainAVKUnmatch => "avk",
                CertificateVerifierError::CertificateChainProtocolParametersUnmatch => "params",
                CertificateVerifierError::CertificateEpochUnmatch => "epochPart",
                CertificateVerifierError::CertificateChainMissingEpoch => "missingEpoch",
                CertificateVerifierError::CertificateChainInfiniteLoop => "loop",
                _ => "other",
            };
        }
        if cause.downcast_ref::<CertificateRetrieverError>().is_some() { return "notFound"; }
    }
    let s = format!("{:?}", e);
    if s.contains("Can not retrieve previous certificate") { "notFound" }
    else if s.contains("genesis") { "genesisSig" }
    else { "other" }
}

/// the specification, walked on the served certificates (independent of the verifier)
fn spec_valid(start: &Certificate, served: &HashMap<String, Certificate>, gv: &GenesisVerifier, max: usize) -> Result<(), String> {
    let mut c = start.clone();
    for _ in 0..max {
        let b = bits(&c, gv);
        if !(b.content && b.signed && b.epoch_part) { return Err(format!("integrity of {}", c.hash)); }
        if c.is_genesis() {
            return if b.genesis { Ok(()) } else { Err("genesis signature".into()) };
        }
        if !b.multisig { return Err(format!("multi-signature of {}", c.hash)); }
        let p = served.get(&c.previous_hash).ok_or("missing parent")?;
        if p.hash != c.previous_hash { return Err("parent served under another hash".into()); }
        let same = p.epoch == c.epoch;
        let link = if same {
            same_key(&p.aggregate_verification_key, &c.aggregate_verification_key) && p.metadata.protocol_parameters == c.metadata.protocol_parameters
        } else if p.epoch.0 + 1 == c.epoch.0 {
            p.protocol_message.get_message_part(&ProtocolMessagePartKey::NextAggregateVerificationKey)
                .and_then(|s| ProtocolAggregateVerificationKeyForConcatenation::try_from(s.as_str()).ok())
                .map(|k| same_key(&k, &c.aggregate_verification_key)).unwrap_or(false)
                && p.protocol_message.get_message_part(&ProtocolMessagePartKey::NextProtocolParameters)
                    .map(|s| *s == c.metadata.protocol_parameters.compute_hash()).unwrap_or(false)
        } else { false };
        if !link { return Err(format!("link {} (epoch {}) -> {} (epoch {}) is neither same-epoch/same-key nor previous-epoch/committed-key", c.hash, c.epoch.0, p.hash, p.epoch.0)); }
        c = p.clone();
    }
    Err("no genesis within the step bound".into())
}

/// key identity as the property means it: every committed field (Merkle root, number of leaves, total
/// stake), compared on the canonical encoding and NOT through the code's own `PartialEq`
fn same_key(a: &ProtocolAggregateVerificationKeyForConcatenation, b: &ProtocolAggregateVerificationKeyForConcatenation) -> bool {
    match (a.to_json_hex(), b.to_json_hex()) { (Ok(x), Ok(y)) => x == y, _ => false }
}

/// the same key with one field of its JSON form altered by `f`
fn alter_key(k: &ProtocolAggregateVerificationKeyForConcatenation, f: &dyn Fn(&mut serde_json::Value)) -> Option<ProtocolAggregateVerificationKeyForConcatenation> {
    let bytes = hex::decode(k.to_json_hex().ok()?).ok()?;
    let mut v: serde_json::Value = serde_json::from_slice(&bytes).ok()?;
    f(&mut v);
    let enc = hex::encode(serde_json::to_vec(&v).ok()?);
    ProtocolAggregateVerificationKeyForConcatenation::try_from(enc.as_str()).ok()
}

fn rehash(c: &mut Certificate) { c.hash = c.try_compute_hash().unwrap(); }

fn main() {
    let args = Args::parse();
    let mut rng = Rng::new(args.seed);
    let mut sink = Sink::new(&args);
    let rt = tokio::runtime::Builder::new_multi_thread().worker_threads(2).enable_all().build().unwrap();
    let logger = slog::Logger::root(slog::Discard, slog::o!());
    let nchains = if args.thorough() { 120 } else { 8 };

    let mut run = |sink: &mut Sink, tag: &str, start: &Certificate, served: &HashMap<String, Certificate>, gv: &GenesisVerifier| {
        if !sink.wanted() { sink.skip(); return; }
        let verifier = MithrilCertificateVerifier::new(logger.clone(), Arc::new(MapRetriever(served.clone())), Arc::new(gv.clone()));
        let out = match rt.block_on(verifier.verify_certificate_chain(start.clone())) {
            Ok(()) => "ok".to_string(),
            Err(e) => format!("err {}", class(&e)),
        };
        let mut ids = Ids(BTreeMap::new());
        let mut keys: Vec<&String> = served.keys().collect();
        keys.sort();
        let served_line = keys.iter().map(|k| format!("({},{})", ids.id(&format!("h:{}", k)), rec(&served[*k], &mut ids, gv))).collect::<Vec<_>>().join(",");
        let start_line = rec(start, &mut ids, gv);
        let req = format!("c03.chain fuel={} start={} served=[{}]", served.len() + 3, start_line, served_line);
        let i = sink.case(tag, &req, &out);
        if out == "ok" {
            if let Err(why) = spec_valid(start, served, gv, served.len() + 3) {
                let cls = if why.contains("neither same-epoch") && why.contains("->") { "bad-link" } else { "invalid-chain" };
                sink.sfail(i, cls, &format!("accepted although the served certificates are not a valid chain: {}", why), &req);
            }
        }
    };

    for ci in 0..nchains {
        let total = rng.range(3, if args.thorough() { 12 } else { 8 });
        let per_epoch = rng.range(1, 3);
        let constant = ci % 2 == 0; // constant signer set: next AVK = AVK across epochs
        let f_const = |_e: Epoch| 3usize;
        let f_var = |e: Epoch| 2 + (*e as usize % 3);
        let method = if rng.bool() { CertificateChainingMethod::ToMasterCertificate } else { CertificateChainingMethod::Sequential };
        let chain = CertificateChainBuilder::new()
            .with_total_certificates(total)
            .with_certificates_per_epoch(per_epoch)
            .with_total_signers_per_epoch_processor(if constant { &f_const } else { &f_var })
            .with_certificate_chaining_method(method)
            .build();
        let gv = chain.genesis_verifier.clone();
        let honest: HashMap<String, Certificate> = chain.certificates_chained.iter().map(|c| (c.hash.clone(), c.clone())).collect();
        let certs = chain.certificates_chained.clone(); // latest .. genesis
        let adv_signers = |e: Epoch| 6 + (*e as usize % 2);
        let adv = CertificateChainBuilder::new().with_total_certificates(total).with_certificates_per_epoch(per_epoch)
            .with_total_signers_per_epoch_processor(&adv_signers).build();
        let other_gv = GenesisSigner::from_ed25519(GenesisEd25519Signer::create_non_deterministic_signer()).create_verifier();

        // honest, from every certificate
        for c in &certs { run(&mut sink, "honest", c, &honest, &gv); }
        // another configured genesis key
        run(&mut sink, "other-genesis-key", &certs[0], &honest, &other_gv);

        for (pos, c) in certs.iter().enumerate() {
            let start = &certs[0];
            // ---- one field altered WITHOUT recomputing the hash (served under the honest hash)
            let alters: Vec<(&str, Box<dyn Fn(&mut Certificate)>)> = vec![
                ("alt-epoch", Box::new(|x: &mut Certificate| x.epoch = Epoch(x.epoch.0 + 1))),
                ("alt-previous-hash", Box::new(|x: &mut Certificate| x.previous_hash.push('0'))),
                ("alt-signed-message", Box::new(|x: &mut Certificate| x.signed_message.push('0'))),
                ("alt-pm-part", Box::new(|x: &mut Certificate| { x.protocol_message.set_message_part(ProtocolMessagePartKey::SnapshotDigest, "tampered".into()); })),
                ("alt-params", Box::new(|x: &mut Certificate| x.metadata.protocol_parameters.k += 1)),
                ("alt-epoch-part", Box::new(|x: &mut Certificate| { x.protocol_message.set_message_part(ProtocolMessagePartKey::CurrentEpoch, "9999".into()); })),
            ];
            for (tag, f) in &alters {
                if !(pos < 3 || rng.chance(1, 3)) { continue; }
                let mut s = honest.clone();
                let mut x = c.clone();
                f(&mut x);
                s.insert(c.hash.clone(), x.clone());
                let st = if pos == 0 { x.clone() } else { start.clone() };
                run(&mut sink, tag, &st, &s, &gv);
                // ---- … and WITH the hash recomputed; children keep pointing at the old hash, so the
                // altered certificate is only reachable as the start certificate
                let mut y = x.clone();
                rehash(&mut y);
                let mut s2 = honest.clone();
                s2.insert(y.hash.clone(), y.clone());
                run(&mut sink, "alt-rehashed-as-start", &y, &s2, &gv);
            }
            // ---- link re-targeted (previous_hash edited, hash recomputed: the multi-signature does not
            // cover previous_hash) to every other served certificate
            if !c.is_genesis() {
                for t in &certs {
                    if t.hash == c.hash || t.hash == c.previous_hash { continue; }
                    if !(certs.len() <= 5 || rng.chance(1, 2)) { continue; }
                    let mut y = c.clone();
                    y.previous_hash = t.hash.clone();
                    rehash(&mut y);
                    let mut s = honest.clone();
                    s.insert(y.hash.clone(), y.clone());
                    let tag = if t.epoch == c.epoch { "relink-same-epoch" } else if t.epoch.0 + 1 == c.epoch.0 { "relink-previous-epoch" } else if t.epoch.0 == c.epoch.0 + 1 { "relink-following-epoch" } else if t.epoch < c.epoch { "relink-older" } else { "relink-newer" };
                    run(&mut sink, tag, &y, &s, &gv);
                }
                // self loop
                let mut y = c.clone();
                y.previous_hash = y.hash.clone();
                let mut s = honest.clone();
                s.insert(y.hash.clone(), y.clone());
                run(&mut sink, "self-loop", &y, &s, &gv);
                // parent dropped
                let mut s = honest.clone();
                s.remove(&c.previous_hash);
                run(&mut sink, "parent-dropped", &certs[0], &s, &gv);
                // wrong certificate served for the parent's hash (another honest one, unmodified)
                let other = &certs[rng.below(certs.len() as u64) as usize];
                if other.hash != c.previous_hash {
                    let mut s = honest.clone();
                    s.insert(c.previous_hash.clone(), other.clone());
                    run(&mut sink, "wrong-cert-for-hash", &certs[0], &s, &gv);
                    // … with its `hash` field forged to the requested one
                    let mut forged = other.clone();
                    forged.hash = c.previous_hash.clone();
                    let mut s = honest.clone();
                    s.insert(c.previous_hash.clone(), forged);
                    run(&mut sink, "forged-hash-field", &certs[0], &s, &gv);
                }
            }
            // ---- the certificate's own key altered field by field (Merkle commitment kept where possible: the
            // multi-signature only binds the commitment, and a smaller total stake only makes lotteries easier)
            if !c.is_genesis() {
                let key_alters: Vec<(&str, Box<dyn Fn(&mut serde_json::Value)>)> = vec![
                    ("key-total-stake-minus-1", Box::new(|v: &mut serde_json::Value| { let t = v["total_stake"].as_u64().unwrap(); v["total_stake"] = serde_json::json!(t - 1); })),
                    ("key-total-stake-plus-1", Box::new(|v: &mut serde_json::Value| { let t = v["total_stake"].as_u64().unwrap(); v["total_stake"] = serde_json::json!(t + 1); })),
                    ("key-nr-leaves-plus-1", Box::new(|v: &mut serde_json::Value| { let t = v["mt_commitment"]["nr_leaves"].as_u64().unwrap(); v["mt_commitment"]["nr_leaves"] = serde_json::json!(t + 1); })),
                    ("key-root-bit", Box::new(|v: &mut serde_json::Value| { let t = v["mt_commitment"]["root"][0].as_u64().unwrap(); v["mt_commitment"]["root"][0] = serde_json::json!(t ^ 1); })),
                ];
                for (tag, f) in &key_alters {
                    if let Some(k2) = alter_key(&c.aggregate_verification_key, f.as_ref()) {
                        let mut y = c.clone();
                        y.aggregate_verification_key = k2;
                        rehash(&mut y);
                        let mut s = honest.clone();
                        s.insert(y.hash.clone(), y.clone());
                        run(&mut sink, tag, &y, &s, &gv);
                    }
                }
            }
            // ---- adversary-signed certificate spliced at this position: it links to the honest parent
            if !c.is_genesis() && pos < adv.certificates_chained.len() {
                let a = adv.certificates_chained.iter().find(|a| a.epoch == c.epoch && !a.is_genesis());
                if let Some(a) = a {
                    let mut y = a.clone();
                    y.previous_hash = c.previous_hash.clone();
                    rehash(&mut y);
                    let mut s = honest.clone();
                    s.insert(y.hash.clone(), y.clone());
                    run(&mut sink, "adversary-spliced", &y, &s, &gv);
                    // adversary certificate with a fake parent carrying the adversary's next AVK, served under the honest hash
                    if let Some(ap) = adv.certificates_chained.iter().find(|p| p.hash == a.previous_hash) {
                        let mut fake = ap.clone();
                        fake.hash = c.previous_hash.clone();
                        let mut s = honest.clone();
                        s.insert(c.previous_hash.clone(), fake);
                        s.insert(y.hash.clone(), y.clone());
                        run(&mut sink, "adversary-fake-parent", &y, &s, &gv);
                    }
                }
            }
        }
        // adversary chain as a whole under the honest genesis key (its genesis is signed by the same
        // deterministic test key, so it is a *valid* chain) and under another key
        let advmap: HashMap<String, Certificate> = adv.certificates_chained.iter().map(|c| (c.hash.clone(), c.clone())).collect();
        run(&mut sink, "second-chain-same-key", &adv.certificates_chained[0], &advmap, &gv);
        run(&mut sink, "second-chain-other-key", &adv.certificates_chained[0], &advmap, &other_gv);
        // genesis re-signed by another key
        {
            let signer = GenesisEd25519Signer::create_non_deterministic_signer();
            let mut g = chain.genesis_certificate().clone();
            g.signature = CertificateSignature::GenesisSignature(signer.sign(g.signed_message.as_bytes()));
            rehash(&mut g);
            let mut s = honest.clone();
            s.insert(g.hash.clone(), g.clone());
            run(&mut sink, "genesis-resigned", &g, &s, &gv);
        }
        // fixed finding witness: forward link on a constant-signer chain
        if ci == 0 {
            let later = certs.iter().find(|x| certs.iter().any(|y| y.epoch.0 + 1 == x.epoch.0 && !y.is_genesis()));
            if let Some(later) = later {
                let earlier = certs.iter().find(|y| y.epoch.0 + 1 == later.epoch.0 && !y.is_genesis()).unwrap();
                let mut y = earlier.clone();
                y.previous_hash = later.hash.clone();
                rehash(&mut y);
                let mut s = honest.clone();
                s.insert(y.hash.clone(), y.clone());
                let verifier = MithrilCertificateVerifier::new(logger.clone(), Arc::new(MapRetriever(s)), Arc::new(gv.clone()));
                let accepted = rt.block_on(verifier.verify_certificate_chain(y)).is_ok();
                sink.witness("C03-forward-link", accepted, "certificate of epoch e re-linked to a certificate of epoch e+1 (constant signer set)");
            }
        }
    }
    sink.finish();
}
