//! C06 harness: the aggregate verification key, total stake and signer slots computed by the real
//! code for every arrival order and through the different entry points (raw STM registration + clerk,
//! `SignerBuilder::new` on `SignerWithStake` lists incl. a JSON round trip, a signer created from the
//! closed registration) versus the Lean model `RegModel.avk` / `slot` (Blake2b-256 in Lean).
use hutil::{hex, Args, Rng, Sink};
use mithril_common::entities::{ProtocolParameters, SignerWithStake};
use mithril_common::protocol::SignerBuilder;
use mithril_common::test::builder::{MithrilFixtureBuilder, StakeDistributionGenerationMethod};
use mithril_stm::{Clerk, Initializer, KeyRegistration, MithrilMembershipDigest, Parameters, RegistrationEntry, VerificationKeyProofOfPossessionForConcatenation};
use rand_chacha::ChaCha20Rng;
use rand_core::SeedableRng;

type D = MithrilMembershipDigest;

fn bytes_of(v: &serde_json::Value) -> Vec<u8> {
    v.as_array().unwrap().iter().map(|x| x.as_u64().unwrap() as u8).collect()
}

/// raw STM path; returns "ok root n total [slots]" or an error class
fn stm_path(entries: &[(VerificationKeyProofOfPossessionForConcatenation, u64)], params: &Parameters) -> String {
    let mut reg = KeyRegistration::initialize();
    for (k, s) in entries {
        if reg.register_by_entry(&RegistrationEntry::new(*k, *s).unwrap()).is_err() { return "err register".into(); }
    }
    match reg.close_registration(params) {
        Err(e) => {
            let t = format!("{:?}", e);
            if t.to_lowercase().contains("overflow") { "err overflow".into() } else if t.to_lowercase().contains("zero") || t.contains("total stake is 0") { "err zero".into() } else { format!("err other {}", t) }
        }
        Ok(closed) => {
            let clerk = Clerk::<D>::new_clerk_from_closed_key_registration(params, &closed);
            let avk = clerk.compute_aggregate_verification_key();
            let v = serde_json::to_value(avk.to_concatenation_aggregate_verification_key()).unwrap();
            let slots: Vec<u64> = entries.iter().map(|(k, s)| {
                (0..entries.len() as u64).find(|i| clerk.get_concatenation_registered_party_for_index(i).map(|(vk, st)| vk == k.vk && st == *s).unwrap_or(false)).unwrap_or(999999)
            }).collect();
            format!("ok {} {} {} {}", hex(&bytes_of(&v["mt_commitment"]["root"])), v["mt_commitment"]["nr_leaves"], v["total_stake"], hutil::list(&slots))
        }
    }
}

fn req(entries: &[(VerificationKeyProofOfPossessionForConcatenation, u64)]) -> String {
    format!("c06.close entries=[{}]", entries.iter().map(|(k, s)| format!("({},{})", hex(&k.vk.to_bytes()), s)).collect::<Vec<_>>().join(","))
}

fn main() {
    let args = Args::parse();
    let mut rng = Rng::new(args.seed);
    let mut sink = Sink::new(&args);
    let params = Parameters { m: 20, k: 5, phi_f: 0.65 };
    let mut crng = ChaCha20Rng::from_seed([args.seed as u8; 32]);
    // a pool of keys; pick some sharing long byte prefixes by searching a larger pool
    let pool: Vec<VerificationKeyProofOfPossessionForConcatenation> = (0..(if args.thorough() { 400 } else { 120 }))
        .map(|_| Initializer::new(params, 1, &mut crng).get_verification_key_proof_of_possession_for_concatenation()).collect();
    let mut sorted = pool.clone();
    sorted.sort_by_key(|k| k.vk.to_bytes().to_vec());

    let sets = if args.thorough() { 400 } else { 60 };
    for si in 0..sets {
        let n = rng.range(1, 10) as usize;
        // keys: random, or neighbours in byte order (longest shared prefixes available)
        let keys: Vec<VerificationKeyProofOfPossessionForConcatenation> = if si % 3 == 0 {
            let start = rng.below((sorted.len() - n) as u64) as usize;
            sorted[start..start + n].to_vec()
        } else {
            let mut idx: Vec<usize> = (0..pool.len()).collect();
            rng.shuffle(&mut idx);
            idx[..n].iter().map(|i| pool[*i]).collect()
        };
        let stakes: Vec<u64> = match si % 6 {
            0 => vec![5; n],                                        // all equal: order decided by the key bytes
            1 => (0..n).map(|i| if i % 2 == 0 { 7 } else { 8 }).collect(),
            2 => (0..n).map(|_| rng.range(0, 3)).collect(),          // zeros, maybe all zero
            3 => (0..n).map(|_| rng.u64() >> 1).collect(),           // may overflow in total
            4 => (0..n).map(|i| if i == 0 { u64::MAX - n as u64 } else { 1 }).collect(), // total = 2^64-1 .. boundary
            _ => (0..n).map(|_| rng.range(1, 1_000_000)).collect(),
        };
        let base: Vec<(VerificationKeyProofOfPossessionForConcatenation, u64)> = keys.into_iter().zip(stakes).collect();
        // permutations: all for n <= 4, sampled above
        let mut perms: Vec<Vec<usize>> = vec![];
        if n <= 4 {
            fn rec(cur: &mut Vec<usize>, used: &mut Vec<bool>, n: usize, out: &mut Vec<Vec<usize>>) {
                if cur.len() == n { out.push(cur.clone()); return; }
                for i in 0..n { if !used[i] { used[i] = true; cur.push(i); rec(cur, used, n, out); cur.pop(); used[i] = false; } }
            }
            rec(&mut vec![], &mut vec![false; n], n, &mut perms);
        } else {
            for _ in 0..(if args.thorough() { 30 } else { 8 }) { let mut p: Vec<usize> = (0..n).collect(); rng.shuffle(&mut p); perms.push(p); }
        }
        let mut first: Option<(String, Vec<u64>)> = None;
        for p in perms {
            if !sink.wanted() { sink.skip(); continue; }
            let entries: Vec<_> = p.iter().map(|i| base[*i]).collect();
            let out = stm_path(&entries, &params);
            let r = req(&entries);
            let i = sink.case("stm-permutation", &r, &out);
            // S: key/total/slots independent of the order (slots compared per party)
            if out.starts_with("ok") {
                let parts: Vec<&str> = out.split(' ').collect();
                let key = parts[1..4].join(" ");
                let slots: Vec<u64> = parts[4].trim_matches(|c| c == '[' || c == ']').split(',').filter(|s| !s.is_empty()).map(|s| s.parse().unwrap()).collect();
                let mut by_party = vec![0u64; n];
                for (pos, orig) in p.iter().enumerate() { by_party[*orig] = slots[pos]; }
                match &first {
                    None => first = Some((key, by_party)),
                    Some((k0, s0)) => {
                        if *k0 != key { sink.sfail(i, "order-dependent-key", "aggregate key / total stake differs between two arrival orders", &r); }
                        if *s0 != by_party { sink.sfail(i, "order-dependent-slot", "a party's signer slot differs between two arrival orders", &r); }
                    }
                }
            }
        }
        // a key that arrives twice (same or another stake): `register_by_entry` refuses the second arrival whatever the stake
        if sink.wanted() {
            let mut entries = base.clone();
            let d = base[rng.below(n as u64) as usize];
            entries.push((d.0, if rng.bool() { d.1 } else { d.1 ^ 1 }));
            rng.shuffle(&mut entries);
            sink.case("stm-duplicate-key", &req(&entries), &stm_path(&entries, &params));
        } else { sink.skip(); }
    }

    // ---- the common entry point: SignerBuilder on fixtures with certified (KES) signers -------
    let fixtures = if args.thorough() { 25 } else { 5 };
    for fi in 0..fixtures {
        let n = rng.range(2, 7) as usize;
        let method = if fi % 2 == 0 { StakeDistributionGenerationMethod::Uniform(10) } else { StakeDistributionGenerationMethod::RandomDistribution { seed: [fi as u8; 32], min_stake: 1 } };
        let fixture = MithrilFixtureBuilder::default().with_signers(n).with_stake_distribution(method).build();
        let pp: ProtocolParameters = fixture.protocol_parameters();
        let signers: Vec<SignerWithStake> = fixture.signers_with_stake();
        let mut keys0: Option<String> = None;
        for round in 0..(if args.thorough() { 8 } else { 4 }) {
            if !sink.wanted() { sink.skip(); continue; }
            let mut perm = signers.clone();
            rng.shuffle(&mut perm);
            // every second round through the JSON encoding of the signer list
            if round % 2 == 1 {
                let text = serde_json::to_string(&perm).unwrap();
                perm = serde_json::from_str(&text).unwrap();
            }
            let sb = match SignerBuilder::new(&perm, &pp) { Ok(s) => s, Err(e) => { let i = sink.next_index(); sink.sfail(i, "builder-failed", &format!("SignerBuilder::new failed on a fixture: {:?}", e), "fixture"); continue; } };
            let avk = sb.compute_aggregate_verification_key();
            let v = serde_json::to_value(avk.to_concatenation_aggregate_verification_key()).unwrap();
            // slots as the multi-signer / a signer created from this registration sees them
            let entries: Vec<(VerificationKeyProofOfPossessionForConcatenation, u64)> = perm.iter().map(|s| (*s.verification_key_for_concatenation, s.stake)).collect();
            let out_stm = stm_path(&entries, &pp.clone().into());
            let key = format!("{} {} {}", hex(&bytes_of(&v["mt_commitment"]["root"])), v["mt_commitment"]["nr_leaves"], v["total_stake"]);
            let out = format!("ok {} {}", key, out_stm.split(' ').last().unwrap_or("[]"));
            let r = req(&entries);
            let i = sink.case("signer-builder", &r, &out);
            // S: the two real paths agree, and all orders / encodings agree
            if !out_stm.starts_with(&format!("ok {}", key)) { sink.sfail(i, "path-dependent-key", "SignerBuilder and the raw STM registration disagree on the aggregate key", &r); }
            // round trip of the key itself through its JSON-hex encoding
            let enc = avk.to_concatenation_aggregate_verification_key().clone();
            let pk: mithril_common::crypto_helper::ProtocolAggregateVerificationKeyForConcatenation = enc.into();
            let hexed = pk.to_json_hex().unwrap();
            let back = mithril_common::crypto_helper::ProtocolAggregateVerificationKeyForConcatenation::try_from(hexed.as_str()).unwrap();
            if back != pk { sink.sfail(i, "codec", "aggregate key changes through its JSON-hex encoding", &r); }
            match &keys0 { None => keys0 = Some(key), Some(k0) => if *k0 != key { sink.sfail(i, "order-dependent-key", "SignerBuilder key differs between orders / encodings", &r); } }
        }
    }
    sink.finish();
}
