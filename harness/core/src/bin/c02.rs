//! C02 harness: real `Clerk::aggregate_signatures_with_type` / `AggregateSignature::verify` /
//! `SingleSignature::verify` versus the Lean model `Clerk.select`; S: every honest signature verifies,
//! completeness (k covered valid indices ⇒ success ⇒ result verifies), monotonicity under extra or
//! repeated material, evaluated on the implementation.
#[path = "../common/stmsetup.rs"]
mod stmsetup;
use hutil::{catch, Args, Rng, Sink};
use mithril_stm::{AggregateSignature, Parameters, SingleSignature};
use std::collections::{BTreeMap, BTreeSet};
use stmsetup::*;

#[derive(Clone)]
struct Item {
    sig: SingleSignature,
    valid: bool,
}

fn sigma_bytes(s: &SingleSignature) -> Vec<u8> {
    s.get_concatenation_signature_sigma().to_bytes().to_vec()
}

/// canonical outcome of an aggregation
fn outcome(f: &Fixture, list: &[Item], k: u64, msg: &[u8]) -> (String, Option<AggregateSignature<D>>) {
    let mut pk = f.params;
    pk.k = k;
    let clerk = mithril_stm::Clerk::<D>::new_clerk_from_closed_key_registration(&pk, &f.closed);
    let sigs: Vec<SingleSignature> = list.iter().map(|i| i.sig.clone()).collect();
    let f2 = f;
    match catch(std::panic::AssertUnwindSafe(|| aggregate(f2, &clerk, &sigs, msg))) {
        Err(_) => ("panic".into(), None),
        Ok(Err(e)) => {
            // "Got only {count} out of {k}"
            let count = e.split("Got only ").nth(1).and_then(|r| r.split(' ').next()).and_then(|c| c.parse::<u64>().ok());
            match count {
                Some(c) => (format!("err {}", c), None),
                None => ("err other".into(), None),
            }
        }
        Ok(Ok(agg)) => {
            let v = serde_json::to_value(&agg).unwrap();
            let mut sel: Vec<(u64, Vec<u64>)> = v["signatures"].as_array().unwrap().iter().map(|s| {
                let idx: Vec<u64> = s[0]["indexes"].as_array().unwrap().iter().map(|x| x.as_u64().unwrap()).collect();
                (s[0]["signer_index"].as_u64().unwrap(), idx)
            }).collect();
            sel.sort();
            (format!("ok [{}]", sel.iter().map(|(s, i)| format!("({},{})", s, hutil::list(i))).collect::<Vec<_>>().join(",")), Some(agg))
        }
    }
}

struct World<'a> {
    f: &'a Fixture,
    msg: Vec<u8>,
    rank: BTreeMap<Vec<u8>, usize>,
}

impl<'a> World<'a> {
    fn req(&self, list: &[Item], k: u64) -> String {
        let sigs = list.iter().map(|it| {
            format!("({},{},{},{},{})", self.rank[&sigma_bytes(&it.sig)], it.sig.signer_index, it.sig.signer_index,
                hutil::list(&it.sig.get_concatenation_signature_indices()), it.valid as u8)
        }).collect::<Vec<_>>().join(",");
        format!("c02.select k={} sigs=[{}]", k, sigs)
    }
    fn valid_idx(&self, list: &[Item]) -> BTreeSet<u64> {
        list.iter().filter(|i| i.valid).flat_map(|i| i.sig.get_concatenation_signature_indices()).collect()
    }
    /// class predicate of the known finding: some (key, index) pair is offered twice among valid signatures
    fn repeats(&self, list: &[Item]) -> bool {
        let mut seen = BTreeSet::new();
        for it in list.iter().filter(|i| i.valid) {
            for ix in it.sig.get_concatenation_signature_indices() {
                if !seen.insert((sigma_bytes(&it.sig), it.sig.signer_index, ix)) {
                    return true;
                }
            }
        }
        false
    }
    fn out_of_range(&self, list: &[Item]) -> bool {
        list.iter().any(|i| i.sig.signer_index as usize >= self.f.by_slot.len())
    }
}

fn main() {
    hutil::quiet_panics();
    let args = Args::parse();
    let mut rng = Rng::new(args.seed);
    let mut sink = Sink::new(&args);
    let worlds = if args.thorough() { 160 } else { 14 };
    let lists_per_world = if args.thorough() { 300 } else { 120 };
    let mut honest_total = 0u64;

    for w in 0..worlds {
        let n = rng.range(1, 8) as usize;
        let stakes: Vec<u64> = match rng.below(4) {
            0 => vec![1; n],
            1 => (0..n).map(|i| if i == 0 { 1_000_000 } else { 1 }).collect(),
            2 => (0..n).map(|_| rng.range(1, 1000)).collect(),
            _ => (0..n).map(|i| if i == 0 { u64::MAX / 2 } else { rng.range(1, u64::MAX / (2 * n as u64)) }).collect(),
        };
        let m = rng.range(3, 24);
        let phi = *rng.pick(&[0.05, 0.2, 0.65, 1.0]);
        let params = Parameters { m, k: 1, phi_f: phi };
        let f = fixture(args.seed.wrapping_mul(1000) + w as u64, &stakes, params);
        let msg = rng.bytes(32);
        let other_msg = rng.bytes(32);
        // honest signatures (registration order = signers order)
        let honest: Vec<SingleSignature> = f.signers.iter().filter_map(|s| s.create_single_signature(&msg).ok()).collect();
        let others: Vec<SingleSignature> = f.signers.iter().filter_map(|s| s.create_single_signature(&other_msg).ok()).collect();
        // S: every signature produced by a registered signer verifies
        for s in &honest {
            honest_total += 1;
            let (vk, st) = &f.by_slot[s.signer_index as usize];
            if s.verify(&f.params, vk, st, &f.avk, &msg).is_err() {
                let i = sink.next_index();
                sink.sfail(i, "honest-single-invalid", "a signature produced by a registered signer does not verify", &format!("world {} signer {}", w, s.signer_index));
            }
        }
        if honest.is_empty() {
            continue;
        }
        let check_valid = |s: &SingleSignature| -> bool {
            match f.by_slot.get(s.signer_index as usize) {
                Some((vk, st)) => s.verify(&f.params, vk, st, &f.avk, &msg).is_ok(),
                None => false,
            }
        };
        // pool of material
        let mut pool: Vec<Item> = honest.iter().map(|s| Item { sig: s.clone(), valid: true }).collect();
        let mut extra: Vec<Item> = vec![];
        for s in &others {
            extra.push(Item { sig: s.clone(), valid: check_valid(s) }); // other message: invalid
        }
        for s in &honest {
            // index-subset copies (same sigma)
            let idx = s.get_concatenation_signature_indices();
            if idx.len() >= 2 {
                let mut c = s.clone();
                let sub: Vec<u64> = idx.iter().cloned().filter(|_| rng.bool()).collect();
                c.set_concatenation_signature_indices(&sub);
                extra.push(Item { valid: check_valid(&c), sig: c });
            }
            // an index the signer did not win / out of range
            let mut c = s.clone();
            let mut idx2 = idx.clone();
            idx2.push((0..m + 2).find(|i| !idx.contains(i)).unwrap_or(m + 5));
            c.set_concatenation_signature_indices(&idx2);
            extra.push(Item { valid: check_valid(&c), sig: c });
            // wrong slot (another registered party) and unregistered slot
            let mut c = s.clone();
            c.signer_index = (s.signer_index + 1) % n as u64;
            extra.push(Item { valid: check_valid(&c), sig: c });
            // an index repeated inside one signature
            if !idx.is_empty() && rng.chance(1, 3) {
                let mut c = s.clone();
                let mut idx3 = idx.clone();
                idx3.push(idx[0]);
                c.set_concatenation_signature_indices(&idx3);
                extra.push(Item { valid: check_valid(&c), sig: c });
            }
        }
        let mut unregistered = honest[0].clone();
        unregistered.signer_index = n as u64 + rng.below(3);
        let unregistered = Item { sig: unregistered, valid: false };

        let mut rank: BTreeMap<Vec<u8>, usize> = BTreeMap::new();
        let mut all_sigmas: Vec<Vec<u8>> = pool.iter().chain(extra.iter()).map(|i| sigma_bytes(&i.sig)).collect();
        all_sigmas.sort();
        all_sigmas.dedup();
        for (i, s) in all_sigmas.iter().enumerate() {
            rank.insert(s.clone(), i);
        }
        let world = World { f: &f, msg: msg.clone(), rank };

        for li in 0..lists_per_world {
            if !sink.wanted() {
                sink.skip();
                continue;
            }
            // base list: a permutation of a subset of the honest signatures
            rng.shuffle(&mut pool);
            let take = rng.range(1, pool.len() as u64) as usize;
            let base: Vec<Item> = pool[..take].to_vec();
            let cover = world.valid_idx(&base).len() as u64;
            let k = match rng.below(4) { 0 => cover.saturating_sub(1).max(1), 1 => cover.max(1), 2 => cover + 1, _ => rng.range(1, cover.max(1)) };
            // extended list: base + extra material interleaved
            let mut ext = base.clone();
            let kind = li % 4;
            let nextra = rng.range(1, 4);
            for _ in 0..nextra {
                let it = match kind {
                    0 => base[rng.below(base.len() as u64) as usize].clone(),                 // repeated copy
                    1 => extra.iter().filter(|e| !e.valid).nth(rng.below(extra.iter().filter(|e| !e.valid).count().max(1) as u64) as usize).cloned().unwrap_or_else(|| base[0].clone()),
                    2 => extra[rng.below(extra.len() as u64) as usize].clone(),               // anything (incl. same-sigma subsets)
                    _ => pool[rng.below(pool.len() as u64) as usize].clone(),                  // more honest ones
                };
                let pos = rng.below(ext.len() as u64 + 1) as usize;
                ext.insert(pos, it);
            }
            let with_unreg = kind == 1 && rng.chance(1, 6);
            if with_unreg {
                ext.push(unregistered.clone());
            }

            let (o_base, agg_base) = outcome(&f, &base, k, &msg);
            let (o_ext, agg_ext) = outcome(&f, &ext, k, &msg);
            let tag_b = if o_base.starts_with("ok") { "base-ok" } else { "base-err" };
            let ib = sink.case(tag_b, &world.req(&base, k), &o_base);
            let tag_e = match kind { 0 => "ext-repeated", 1 => "ext-invalid", 2 => "ext-mixed", _ => "ext-more-honest" };
            // an unregistered slot is, for the model, one more invalid signature
            let ie = sink.case(if with_unreg { "ext-unregistered-slot" } else { tag_e }, &world.req(&ext, k), &o_ext);
            // S: completeness on the base list
            let mut params_k = f.params;
            params_k.k = k;
            for (list, o, agg, i) in [(&base, &o_base, &agg_base, ib), (&ext, &o_ext, &agg_ext, ie)] {
                let cover = world.valid_idx(list).len() as u64;
                // (both former known classes are repaired: no S failure is excused any more)
                let class = if world.out_of_range(list) { "incomplete-unregistered-slot" } else if world.repeats(list) { "incomplete-repeated" } else { "incomplete" };
                if cover >= k && !o.starts_with("ok") {
                    sink.sfail(i, class, &format!("{} distinct valid indices cover k={} but aggregation failed: {}", cover, k, o), &world.req(list, k));
                }
                if let Some(a) = agg {
                    if a.verify(&msg, &f.avk, &params_k, None, None).is_err() {
                        let class2 = "result-does-not-verify";
                        sink.sfail(i, class2, "aggregation succeeded but its result does not verify", &world.req(list, k));
                    }
                }
            }
            // S: the order of what is handed over never changes WHETHER aggregation succeeds
            if li % 3 == 0 {
                let mut perm = ext.clone();
                rng.shuffle(&mut perm);
                let (o_perm, agg_perm) = outcome(&f, &perm, k, &msg);
                let ip = sink.case("ext-permuted", &world.req(&perm, k), &o_perm);
                if o_perm.starts_with("ok") != o_ext.starts_with("ok") {
                    sink.sfail(ip, "order-dependent", &format!("the same multiset in another order: {} vs {}", o_ext, o_perm), &world.req(&perm, k));
                }
                if let Some(a) = agg_perm {
                    if a.verify(&msg, &f.avk, &params_k, None, None).is_err() {
                        sink.sfail(ip, "result-does-not-verify", "aggregation succeeded but its result does not verify", &world.req(&perm, k));
                    }
                }
            }
            // S: monotonicity
            if o_base.starts_with("ok") && !o_ext.starts_with("ok") {
                let class = if world.out_of_range(&ext) { "non-monotone-unregistered-slot" } else if world.repeats(&ext) { "non-monotone-repeated" } else { "non-monotone" };
                sink.sfail(ie, class, &format!("success turned into failure by extra material: {} -> {}", o_base, o_ext), &world.req(&ext, k));
            }
        }
        // edges never met above: k = 0, nothing valid, the empty list (`Err(NotEnoughSignatures(0, k))` even for k = 0)
        {
            let invalid: Vec<Item> = extra.iter().filter(|e| !e.valid).cloned().collect();
            let mut mixed = invalid.clone();
            mixed.extend(pool.iter().cloned());
            rng.shuffle(&mut mixed);
            for (list, k) in [(pool.clone(), 0u64), (invalid.clone(), 0), (invalid.clone(), 1), (vec![], 0), (vec![], 1), (mixed, 0)] {
                if !sink.wanted() { sink.skip(); continue; }
                let (o, _) = outcome(&f, &list, k, &msg);
                sink.case("edge-k0-or-nothing-valid", &world.req(&list, k), &o);
            }
        }
        // witness of the (repaired) findings on this world: sigs ++ sigs, sigs ++ [unregistered slot]
        if w == 0 {
            let base: Vec<Item> = pool.clone();
            let mut dup = base.clone();
            dup.extend(base.iter().cloned());
            let cover = world.valid_idx(&base).len() as u64;
            let (o1, _) = outcome(&f, &base, cover.max(1), &msg);
            let (o2, _) = outcome(&f, &dup, cover.max(1), &msg);
            sink.witness("C02-duplicate", o1.starts_with("ok") && !o2.starts_with("ok"), &format!("aggregate(sigs) = {} ; aggregate(sigs ++ sigs) = {}", &o1[..o1.len().min(20)], o2));
            let mut unr = base.clone();
            unr.push(unregistered.clone());
            let (o3, _) = outcome(&f, &unr, cover.max(1), &msg);
            sink.witness("C02-unregistered-slot", o1.starts_with("ok") && !o3.starts_with("ok"), &format!("aggregate(sigs ++ [sig with unregistered signer_index]) = {}", o3));
        }
    }
    // ==== (2) the same through mithril-common: entities::SingleSignature -> protocol::MultiSigner ==================
    // (`aggregate_single_signatures`, `verify_single_signature`: what the aggregator calls)
    {
        use mithril_common::entities::{ProtocolMessage, ProtocolMessagePartKey, ProtocolParameters, SingleSignature as EntSig};
        use mithril_common::protocol::{SignerBuilder, ToMessage};
        use mithril_common::test::builder::{MithrilFixtureBuilder, StakeDistributionGenerationMethod};
        let nworlds = if args.thorough() { 24 } else { 4 };
        let nlists = if args.thorough() { 120 } else { 50 };
        for w in 0..nworlds {
            let n = rng.range(2, 6) as usize;
            let m = rng.range(6, 20);
            let params = ProtocolParameters { k: 1, m, phi_f: *rng.pick(&[0.3, 0.65, 0.95]) };
            let mut seed = [0u8; 32]; seed[0] = w as u8; seed[1] = args.seed as u8;
            let fixture = MithrilFixtureBuilder::default().with_signers(n).with_protocol_parameters(params.clone())
                .with_stake_distribution(StakeDistributionGenerationMethod::RandomDistribution { seed, min_stake: 1 }).build();
            let mut message = ProtocolMessage::new();
            message.set_message_part(ProtocolMessagePartKey::SnapshotDigest, hutil::hex(&rng.bytes(16)));
            let mut other_message = ProtocolMessage::new();
            other_message.set_message_part(ProtocolMessagePartKey::SnapshotDigest, "other".into());
            let honest: Vec<EntSig> = fixture.signers_fixture().iter().filter_map(|s| s.sign(&message)).collect();
            let others: Vec<EntSig> = fixture.signers_fixture().iter().filter_map(|s| s.sign(&other_message)).collect();
            if honest.is_empty() { continue; }
            let msg_bytes = message.to_message().into_bytes();
            let stm_params: Parameters = params.clone().into();
            let builder = SignerBuilder::new(&fixture.signers_with_stake(), &params).unwrap();
            // the same registration at the STM level (to look up the party registered at a signer index)
            let mut key_reg = mithril_stm::KeyRegistration::initialize();
            for sw in fixture.signers_with_stake() {
                let vkpop: mithril_stm::VerificationKeyProofOfPossessionForConcatenation = sw.verification_key_for_concatenation.into();
                key_reg.register(sw.stake, &vkpop).unwrap();
            }
            let closed = key_reg.close_registration(&stm_params).unwrap();
            let stm_clerk = mithril_stm::Clerk::<D>::new_clerk_from_closed_key_registration(&stm_params, &closed);
            // S: every signature produced by a registered signer verifies (through the wrapper)
            {
                let ms = builder.build_multi_signer();
                for s in &honest {
                    honest_total += 1;
                    if ms.verify_single_signature(&message, s).is_err() {
                        let i = sink.next_index();
                        sink.sfail(i, "honest-single-invalid", "MultiSigner::verify_single_signature rejects a signature produced by a registered signer", &format!("common world {} party {}", w, s.party_id));
                    }
                }
            }
            let avk = builder.compute_aggregate_verification_key();
            // validity per the protocol (key registered at the signer index, message, indices): what the selection uses
            let valid_of = |s: &EntSig| -> bool {
                let p = s.to_protocol_signature();
                match stm_clerk.get_concatenation_registered_party_for_index(&p.signer_index) {
                    Ok((vk, stake)) => p.verify(&stm_params, &vk, &stake, &avk, &msg_bytes).is_ok(),
                    Err(_) => false,
                }
            };
            let mut pool: Vec<(EntSig, bool)> = honest.iter().map(|s| (s.clone(), true)).collect();
            let mut extra: Vec<(EntSig, bool)> = vec![];
            for s in &others { extra.push((s.clone(), valid_of(s))); }
            for s in &honest {
                let mut p = s.to_protocol_signature();
                let idx = p.get_concatenation_signature_indices();
                if idx.len() >= 2 {
                    let sub: Vec<u64> = idx.iter().cloned().filter(|_| rng.bool()).collect();
                    p.set_concatenation_signature_indices(&sub);
                    let e = EntSig::new(s.party_id.clone(), p.clone().into(), sub);
                    extra.push((e.clone(), valid_of(&e)));
                }
                let mut p = s.to_protocol_signature();
                p.signer_index = (p.signer_index + 1) % n as u64;
                let e = EntSig::new(s.party_id.clone(), p.into(), s.won_indexes.clone());
                extra.push((e.clone(), valid_of(&e)));
                // the entity's own `won_indexes` field disagreeing with the signature it wraps: must not matter
                let e = EntSig::new(s.party_id.clone(), s.signature.clone(), vec![0, 1, 2]);
                extra.push((e.clone(), valid_of(&e)));
                // relabelled: another party id on the same signature (aggregation is by key, not by label)
                let e = EntSig::new("someone-else", s.signature.clone(), s.won_indexes.clone());
                extra.push((e.clone(), valid_of(&e)));
            }
            let mut rank: BTreeMap<Vec<u8>, usize> = BTreeMap::new();
            let mut all: Vec<Vec<u8>> = pool.iter().chain(extra.iter()).map(|(e, _)| sigma_bytes(&e.to_protocol_signature())).collect();
            all.sort(); all.dedup();
            for (i, s) in all.iter().enumerate() { rank.insert(s.clone(), i); }
            let req_of = |list: &[(EntSig, bool)], k: u64| -> String {
                format!("c02.select k={} sigs=[{}]", k, list.iter().map(|(e, v)| { let p = e.to_protocol_signature(); format!("({},{},{},{},{})", rank[&sigma_bytes(&p)], p.signer_index, p.signer_index, hutil::list(&p.get_concatenation_signature_indices()), *v as u8) }).collect::<Vec<_>>().join(","))
            };
            let run = |list: &[(EntSig, bool)], k: u64| -> (String, bool) {
                let mut pk = params.clone(); pk.k = k;
                let ms = match SignerBuilder::new(&fixture.signers_with_stake(), &pk) { Ok(b) => b.build_multi_signer(), Err(_) => return ("err other".into(), false) };
                let sigs: Vec<EntSig> = list.iter().map(|(e, _)| e.clone()).collect();
                let msg = message.clone();
                match catch(std::panic::AssertUnwindSafe(|| ms.aggregate_single_signatures(&sigs, &msg, mithril_stm::AggregateSignatureType::Concatenation, ancillary()).map_err(|e| format!("{:?}", e)))) {
                    Err(_) => ("panic".into(), false),
                    Ok(Err(e)) => { let c = e.split("Got only ").nth(1).and_then(|r| r.split(' ').next()).and_then(|c| c.parse::<u64>().ok()); (c.map(|c| format!("err {}", c)).unwrap_or("err other".into()), false) }
                    Ok(Ok(r)) => {
                        let v = serde_json::to_value(&*r.multi_signature).unwrap();
                        let mut sel: Vec<(u64, Vec<u64>)> = v["signatures"].as_array().unwrap().iter().map(|s| (s[0]["signer_index"].as_u64().unwrap(), s[0]["indexes"].as_array().unwrap().iter().map(|x| x.as_u64().unwrap()).collect())).collect();
                        sel.sort();
                        let pk_stm: Parameters = pk.clone().into();
                        let verifies = r.multi_signature.verify(&msg_bytes, &ms.compute_aggregate_verification_key(), &pk_stm, None, None).is_ok();
                        (format!("ok [{}]", sel.iter().map(|(s, i)| format!("({},{})", s, hutil::list(i))).collect::<Vec<_>>().join(",")), verifies)
                    }
                }
            };
            for li in 0..nlists {
                if !sink.wanted() { sink.skip(); continue; }
                rng.shuffle(&mut pool);
                let take = rng.range(1, pool.len() as u64) as usize;
                let base: Vec<(EntSig, bool)> = pool[..take].to_vec();
                let cover: BTreeSet<u64> = base.iter().filter(|(_, v)| *v).flat_map(|(e, _)| e.to_protocol_signature().get_concatenation_signature_indices()).collect();
                let cover = cover.len() as u64;
                let k = match rng.below(3) { 0 => cover.max(1), 1 => cover + 1, _ => rng.range(1, cover.max(1)) };
                let mut ext = base.clone();
                for _ in 0..rng.range(1, 4) {
                    let it = match li % 3 { 0 => base[rng.below(base.len() as u64) as usize].clone(), 1 => extra[rng.below(extra.len() as u64) as usize].clone(), _ => pool[rng.below(pool.len() as u64) as usize].clone() };
                    let pos = rng.below(ext.len() as u64 + 1) as usize;
                    ext.insert(pos, it);
                }
                let (ob, vb) = run(&base, k);
                let (oe, ve) = run(&ext, k);
                let ib = sink.case("common-base", &req_of(&base, k), &ob);
                let ie = sink.case(match li % 3 { 0 => "common-ext-repeated", 1 => "common-ext-mixed", _ => "common-ext-more-honest" }, &req_of(&ext, k), &oe);
                if cover >= k && !ob.starts_with("ok") { sink.sfail(ib, "incomplete", &format!("MultiSigner: {} distinct valid indices cover k={} but aggregation failed: {}", cover, k, ob), &req_of(&base, k)); }
                if ob.starts_with("ok") && !vb { sink.sfail(ib, "result-does-not-verify", "MultiSigner: aggregation succeeded but its result does not verify", &req_of(&base, k)); }
                if oe.starts_with("ok") && !ve { sink.sfail(ie, "result-does-not-verify", "MultiSigner: aggregation succeeded but its result does not verify", &req_of(&ext, k)); }
                if ob.starts_with("ok") && !oe.starts_with("ok") { sink.sfail(ie, "non-monotone", &format!("MultiSigner: success turned into failure by extra material: {} -> {}", ob, oe), &req_of(&ext, k)); }
            }
        }
    }
    sink.note("honest_single_signatures_verified", &honest_total.to_string());
    sink.finish();
}
