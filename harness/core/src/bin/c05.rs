//! C05 harness. (1) K: the legacy byte layouts of single signatures, signature+party and aggregate
//! signatures assembled by hand from real components, truncated at every length and with every length
//! prefix set to boundary values, decoded by the real `from_bytes` and by the Lean model `LegacyDec`.
//! (2) S (a test, not a proof — the third-party codecs are not modelled): every public byte / hex / JSON
//! entry point of the wire types on honest encodings and structure-aware / random mutations of them, under a
//! panic hook and a counting allocator: no panic, no single allocation out of proportion to the input,
//! honest values round-trip. (3) the nested `MKMapProof` recursion-depth witness in a child process.
#[path = "../common/stmsetup.rs"]
mod stmsetup;
use hutil::{catch, hex, Args, Rng, Sink};
use mithril_common::crypto_helper::{MKMapProof, MKProof, ProtocolAggregateVerificationKeyForConcatenation, GenesisEd25519Signature as ProtocolGenesisSignature, ProtocolMultiSignature, ProtocolOpCert, ProtocolSignerVerificationKeyForConcatenation, ProtocolSingleSignature};
use mithril_common::entities::BlockRange;
use mithril_common::messages::{CardanoTransactionsProofsMessage, CertificateMessage};
use mithril_common::test::double::fake_keys;
use mithril_stm::{AggregateSignature, AggregateVerificationKeyForConcatenation, Initializer, Parameters, SingleSignature, SingleSignatureWithRegisteredParty, VerificationKeyForConcatenation, VerificationKeyProofOfPossessionForConcatenation};
use std::alloc::{GlobalAlloc, Layout, System};
use std::sync::atomic::{AtomicUsize, Ordering};
use stmsetup::*;

struct Counting;
static MAX_ALLOC: AtomicUsize = AtomicUsize::new(0);
unsafe impl GlobalAlloc for Counting {
    unsafe fn alloc(&self, l: Layout) -> *mut u8 { MAX_ALLOC.fetch_max(l.size(), Ordering::Relaxed); System.alloc(l) }
    unsafe fn dealloc(&self, p: *mut u8, l: Layout) { System.dealloc(p, l) }
    unsafe fn realloc(&self, p: *mut u8, l: Layout, n: usize) -> *mut u8 { MAX_ALLOC.fetch_max(n, Ordering::Relaxed); System.realloc(p, l, n) }
}
#[global_allocator]
static A: Counting = Counting;

fn be(n: u64) -> [u8; 8] { n.to_be_bytes() }

fn bytes_of(v: &serde_json::Value) -> Vec<u8> { v.as_array().unwrap().iter().map(|x| x.as_u64().unwrap() as u8).collect() }

fn legacy_single(idx: &[u64], sigma: &[u8], signer: u64) -> Vec<u8> {
    let mut o = be(idx.len() as u64).to_vec();
    for i in idx { o.extend(be(*i)); }
    o.extend_from_slice(sigma);
    o.extend(be(signer));
    o
}
fn legacy_reg(vk: &[u8], stake: u64) -> Vec<u8> { let mut o = vk.to_vec(); o.extend(be(stake)); o }
fn legacy_sigreg(reg: &[u8], sig: &[u8]) -> Vec<u8> {
    let mut o = be(reg.len() as u64).to_vec(); o.extend_from_slice(reg); o.extend(be(sig.len() as u64)); o.extend_from_slice(sig); o
}
fn legacy_path(values: &[Vec<u8>], indices: &[u64]) -> Vec<u8> {
    let mut o = be(values.len() as u64).to_vec(); o.extend(be(indices.len() as u64));
    for v in values { o.extend_from_slice(v); }
    for i in indices { o.extend(be(*i)); }
    o
}
fn legacy_aggregate(sigregs: &[Vec<u8>], path: &[u8]) -> Vec<u8> {
    let mut o = vec![0u8];
    o.extend(be(sigregs.len() as u64));
    for s in sigregs { o.extend(be(s.len() as u64)); o.extend_from_slice(s); }
    o.extend_from_slice(path);
    o
}

/// positions of the 8-byte length / count prefixes of an input built by the functions above are not tracked:
/// every 8-aligned-from-some-offset window is tried instead (all offsets for short inputs, sampled for long ones)
fn prefix_mutations(rng: &mut Rng, b: &[u8], max: usize) -> Vec<Vec<u8>> {
    let vals = [0u64, 1, 2, (b.len() as u64).saturating_sub(1), b.len() as u64, b.len() as u64 + 1, 1 << 32, 1 << 44, 1 << 61, 1 << 63, u64::MAX - 8, u64::MAX - 7, u64::MAX];
    let mut out = vec![];
    if b.len() < 8 { return out; }
    let mut offs: Vec<usize> = (0..=b.len() - 8).collect();
    if offs.len() * vals.len() > max { rng.shuffle(&mut offs); offs.truncate(max / vals.len()); offs.push(0); offs.push(1); offs.push(9); }
    for o in offs {
        if o + 8 > b.len() { continue; }
        for v in vals { let mut m = b.to_vec(); m[o..o + 8].copy_from_slice(&be(v)); out.push(m); }
    }
    out
}

fn canon_single(v: &serde_json::Value) -> String {
    format!("({},{},{})", hutil::list(&v["indexes"].as_array().unwrap().iter().map(|x| x.as_u64().unwrap()).collect::<Vec<_>>()), hex(&bytes_of(&v["sigma"])), v["signer_index"])
}
fn canon_pair(v: &serde_json::Value) -> String {
    format!("({},{},{},{},{})", hutil::list(&v[0]["indexes"].as_array().unwrap().iter().map(|x| x.as_u64().unwrap()).collect::<Vec<_>>()), hex(&bytes_of(&v[0]["sigma"])), v[0]["signer_index"], hex(&bytes_of(&v[1][0])), v[1][1])
}

struct Watch { panics: u64, big: u64, calls: u64 }

/// run one decoder call under the panic hook and the allocation counter
fn guarded<T>(w: &mut Watch, sink: &mut Sink, what: &str, input_len: usize, input_hex: &dyn Fn() -> String, f: impl FnOnce() -> T + std::panic::UnwindSafe) -> Option<T> {
    w.calls += 1;
    MAX_ALLOC.store(0, Ordering::Relaxed);
    let r = catch(f);
    let m = MAX_ALLOC.load(Ordering::Relaxed);
    if m > 64 * input_len + (1 << 20) {
        w.big += 1;
        let i = sink.next_index();
        sink.sfail(i, "allocation", &format!("{}: single allocation of {} bytes for an input of {} bytes", what, m, input_len), &input_hex());
    }
    match r {
        Ok(v) => Some(v),
        Err(msg) => {
            w.panics += 1;
            let i = sink.next_index();
            sink.sfail(i, "panic", &format!("{} panicked: {}", what, msg), &input_hex());
            None
        }
    }
}

fn child_mkmap(depth: usize) {
    let mut b = vec![];
    for _ in 0..depth { b.extend_from_slice(&[0, 0, 0, 0, 1, 0, 0]); }
    b.extend_from_slice(&[0, 0, 0, 0, 0]);
    let r = MKMapProof::<BlockRange>::from_bytes(&b);
    println!("child decoded: {}", r.is_ok());
}

fn main() {
    let argv: Vec<String> = std::env::args().collect();
    if argv.len() >= 4 && argv[1] == "--child" && argv[2] == "mkmap" {
        child_mkmap(argv[3].parse().unwrap());
        return;
    }
    hutil::quiet_panics();
    let args = Args::parse();
    let mut rng = Rng::new(args.seed);
    let mut sink = Sink::new(&args);
    let mut w = Watch { panics: 0, big: 0, calls: 0 };

    // ---- real components -------------------------------------------------------------------
    let params = Parameters { m: 12, k: 3, phi_f: 0.9 };
    let f = fixture(args.seed, &[3, 5, 7, 11], params);
    let msg = b"c05".to_vec();
    let sigs: Vec<SingleSignature> = f.signers.iter().filter_map(|s| s.create_single_signature(&msg).ok()).collect();
    let agg = aggregate(&f, &f.clerk, &sigs, &msg).unwrap();
    let aggv = serde_json::to_value(&agg).unwrap();
    let pairs = aggv["signatures"].as_array().unwrap();
    let valid_sig: Vec<Vec<u8>> = pairs.iter().map(|p| bytes_of(&p[0]["sigma"])).collect();
    let valid_vk: Vec<Vec<u8>> = pairs.iter().map(|p| bytes_of(&p[1][0])).collect();
    let oracle = format!("validsig=[{}] validvk=[{}]", valid_sig.iter().map(|b| hex(b)).collect::<Vec<_>>().join(","), valid_vk.iter().map(|b| hex(b)).collect::<Vec<_>>().join(","));

    let singles: Vec<Vec<u8>> = pairs.iter().map(|p| legacy_single(&p[0]["indexes"].as_array().unwrap().iter().map(|x| x.as_u64().unwrap()).collect::<Vec<_>>(), &bytes_of(&p[0]["sigma"]), p[0]["signer_index"].as_u64().unwrap())).collect();
    let regs: Vec<Vec<u8>> = pairs.iter().map(|p| legacy_reg(&bytes_of(&p[1][0]), p[1][1].as_u64().unwrap())).collect();
    let sigregs: Vec<Vec<u8>> = singles.iter().zip(regs.iter()).map(|(s, r)| legacy_sigreg(r, s)).collect();
    let values: Vec<Vec<u8>> = aggv["batch_proof"]["values"].as_array().unwrap().iter().map(bytes_of).collect();
    let indices: Vec<u64> = aggv["batch_proof"]["indices"].as_array().unwrap().iter().map(|x| x.as_u64().unwrap()).collect();
    let path = legacy_path(&values, &indices);
    let legacy_agg = legacy_aggregate(&sigregs, &path);

    // ---- (1) K on the legacy layouts --------------------------------------------------------
    let budget = if args.thorough() { 40_000 } else { 2_500 };
    let mut k_case = |sink: &mut Sink, w: &mut Watch, op: &str, tag: &str, b: &[u8]| {
        if !sink.wanted() { sink.skip(); return; }
        let hx = || hex(b);
        let out = match op {
            "single" => {
                let bb = b.to_vec();
                match guarded(w, sink, "SingleSignature::from_bytes", b.len(), &hx, move || SingleSignature::from_bytes::<D>(&bb)) {
                    None => "panic".to_string(),
                    Some(Err(_)) => "err".into(),
                    Some(Ok(s)) => format!("ok {}", canon_single(&serde_json::to_value(&s).unwrap())),
                }
            }
            "sigreg" => {
                let bb = b.to_vec();
                match guarded(w, sink, "SingleSignatureWithRegisteredParty::from_bytes", b.len(), &hx, move || SingleSignatureWithRegisteredParty::from_bytes::<D>(&bb)) {
                    None => "panic".to_string(),
                    Some(Err(_)) => "err".into(),
                    Some(Ok(s)) => format!("ok {}", canon_pair(&serde_json::to_value(&s).unwrap())),
                }
            }
            _ => {
                let bb = b.to_vec();
                match guarded(w, sink, "AggregateSignature::from_bytes", b.len(), &hx, move || AggregateSignature::<D>::from_bytes(&bb)) {
                    None => "panic".to_string(),
                    Some(Err(_)) => "err".into(),
                    Some(Ok(a)) => {
                        let v = serde_json::to_value(&a).unwrap();
                        format!("ok sigs=[{}] path=([{}],{})",
                            v["signatures"].as_array().unwrap().iter().map(canon_pair).collect::<Vec<_>>().join(","),
                            v["batch_proof"]["values"].as_array().unwrap().iter().map(|x| hex(&bytes_of(x))).collect::<Vec<_>>().join(","),
                            hutil::list(&v["batch_proof"]["indices"].as_array().unwrap().iter().map(|x| x.as_u64().unwrap()).collect::<Vec<_>>()))
                    }
                }
            }
        };
        // inputs whose (nested) payload takes the CBOR branch are outside the model: the model answers `cbor`
        let req = format!("c05.{} bytes={} {}", op, hex(b), oracle);
        let cbor_somewhere = b.first() == Some(&1);
        if cbor_somewhere { sink.case("cbor-branch", &format!("c05.{} bytes={} {}", op, hex(&[1u8]), oracle), "unmodelled:cbor"); } else { sink.case(tag, &req, &out); }
    };
    for (op, honest) in [("single", &singles[0]), ("sigreg", &sigregs[0]), ("aggregate", &legacy_agg)] {
        k_case(&mut sink, &mut w, op, "legacy-honest", honest);
        if op == "aggregate" || op == "sigreg" || op == "single" {
            // decoding the honest legacy layout must give the honest value
        }
        for n in 0..honest.len() { k_case(&mut sink, &mut w, op, "legacy-truncated", &honest[..n]); }
        for m in prefix_mutations(&mut rng, honest, budget) { k_case(&mut sink, &mut w, op, "legacy-prefix-inflated", &m); }
        // trailing garbage and splices
        let mut t = honest.to_vec(); t.extend(rng.bytes(17)); k_case(&mut sink, &mut w, op, "legacy-trailing", &t);
    }
    // the fixed-finding inputs
    {
        let mut evil = vec![0xffu8; 8]; evil.extend(vec![0u8; 16]);
        k_case(&mut sink, &mut w, "sigreg", "corpus", &evil);
        let mut evil2 = vec![0u8]; evil2.extend(be(u64::MAX)); evil2.extend(vec![0u8; 15]);
        k_case(&mut sink, &mut w, "aggregate", "corpus", &evil2);
        let mut evil3 = vec![0u8]; evil3.extend(be(1 << 44)); evil3.extend(vec![0u8; 15]);
        k_case(&mut sink, &mut w, "aggregate", "corpus", &evil3);
        let mut evil4 = vec![0u8]; evil4.extend(be(1)); evil4.extend(be(u64::MAX - 3)); evil4.extend(vec![0u8; 15]);
        k_case(&mut sink, &mut w, "aggregate", "corpus", &evil4);
    }

    // ---- (2) every public entry point: honest encodings, round trips, mutations ---------------
    let cbor_agg = agg.to_bytes().unwrap();
    let cbor_single = sigs[0].to_bytes().unwrap();
    let avk = f.avk.to_concatenation_aggregate_verification_key().clone();
    let avk_bytes = avk.to_bytes().unwrap();
    let init_bytes = f.initializers[0].to_bytes().unwrap();
    let vk_bytes = f.by_slot[0].0.to_bytes().to_vec();
    let vkpop_bytes = f.initializers[0].get_verification_key_proof_of_possession_for_concatenation().to_bytes().to_vec();
    let params_bytes = params.to_bytes().unwrap();
    // round trips
    {
        let mut fail = |what: &str| { let i = sink.next_index(); sink.sfail(i, "roundtrip", &format!("{} does not round-trip", what), what); };
        if AggregateSignature::<D>::from_bytes(&cbor_agg).map(|a| serde_json::to_value(&a).unwrap() != aggv).unwrap_or(true) { fail("AggregateSignature (CBOR)"); }
        if AggregateSignature::<D>::from_bytes(&legacy_agg).map(|a| serde_json::to_value(&a).unwrap() != aggv).unwrap_or(true) { fail("AggregateSignature (legacy layout)"); }
        if SingleSignature::from_bytes::<D>(&cbor_single).map(|s| s != sigs[0] || s.get_concatenation_signature_indices() != sigs[0].get_concatenation_signature_indices()).unwrap_or(true) { fail("SingleSignature"); }
        if AggregateVerificationKeyForConcatenation::<D>::from_bytes(&avk_bytes).map(|a| a != avk).unwrap_or(true) { fail("AggregateVerificationKeyForConcatenation"); }
        if Parameters::from_bytes(&params_bytes).map(|p| p != params).unwrap_or(true) { fail("Parameters"); }
        if VerificationKeyForConcatenation::from_bytes(&vk_bytes).map(|k| k != f.by_slot[0].0).unwrap_or(true) { fail("VerificationKeyForConcatenation"); }
        let ms: ProtocolMultiSignature = fake_keys::multi_signature()[0].try_into().unwrap();
        if ProtocolMultiSignature::try_from(ms.to_json_hex().unwrap().as_str()).map(|b| b.to_json_hex().unwrap() != ms.to_json_hex().unwrap()).unwrap_or(true) { fail("ProtocolMultiSignature json hex"); }
        if ProtocolMultiSignature::try_from(ms.to_bytes_hex().unwrap().as_str()).map(|b| b.to_json_hex().unwrap() != ms.to_json_hex().unwrap()).unwrap_or(true) { fail("ProtocolMultiSignature bytes hex"); }
    }
    type Dec = (&'static str, Vec<u8>, fn(&[u8]) -> bool);
    let decs: Vec<Dec> = vec![
        ("AggregateSignature::from_bytes", cbor_agg.clone(), |b| AggregateSignature::<D>::from_bytes(b).is_ok()),
        ("AggregateSignature::from_bytes(legacy)", legacy_agg.clone(), |b| AggregateSignature::<D>::from_bytes(b).is_ok()),
        ("SingleSignature::from_bytes", cbor_single.clone(), |b| SingleSignature::from_bytes::<D>(b).is_ok()),
        ("SingleSignatureWithRegisteredParty::from_bytes", sigregs[0].clone(), |b| SingleSignatureWithRegisteredParty::from_bytes::<D>(b).is_ok()),
        ("AggregateVerificationKeyForConcatenation::from_bytes", avk_bytes.clone(), |b| AggregateVerificationKeyForConcatenation::<D>::from_bytes(b).is_ok()),
        ("Initializer::from_bytes", init_bytes.clone(), |b| Initializer::from_bytes(b).is_ok()),
        ("Parameters::from_bytes", params_bytes.clone(), |b| Parameters::from_bytes(b).is_ok()),
        ("VerificationKeyForConcatenation::from_bytes", vk_bytes.clone(), |b| VerificationKeyForConcatenation::from_bytes(b).is_ok()),
        ("VerificationKeyProofOfPossessionForConcatenation::from_bytes", vkpop_bytes.clone(), |b| VerificationKeyProofOfPossessionForConcatenation::from_bytes(b).is_ok()),
        ("MKProof::from_bytes", { let t = mithril_common::crypto_helper::MKTree::<mithril_common::crypto_helper::MKTreeStoreInMemory>::new(&["a", "b", "c", "d", "e"]).unwrap(); t.compute_proof(&["b".into(), "d".into()]).unwrap().to_bytes().unwrap() }, |b| MKProof::from_bytes(b).is_ok()),
        ("MKMapProof::from_bytes", {
            let entries: Vec<(BlockRange, mithril_common::crypto_helper::MKMapNode<BlockRange, mithril_common::crypto_helper::MKTreeStoreInMemory>)> = (0..3u64).map(|r| (BlockRange::from_block_number(mithril_common::entities::BlockNumber(r * 15)), mithril_common::crypto_helper::MKMapNode::Tree(std::sync::Arc::new(mithril_common::crypto_helper::MKTree::new(&[format!("x{}", r), format!("y{}", r)]).unwrap())))).collect();
            let m = mithril_common::crypto_helper::MKMap::<BlockRange, _, mithril_common::crypto_helper::MKTreeStoreInMemory>::new(&entries).unwrap();
            m.compute_proof(&["x1".to_string(), "y2".to_string()]).unwrap().to_bytes().unwrap()
        }, |b| MKMapProof::<BlockRange>::from_bytes(b).is_ok()),
    ];
    let per = if args.thorough() { 40_000 } else { 1_500 };
    for (name, honest, f) in &decs {
        let mut inputs: Vec<Vec<u8>> = vec![honest.clone()];
        for n in 0..honest.len().min(400) { inputs.push(honest[..n].to_vec()); }
        inputs.extend(prefix_mutations(&mut rng, honest, per / 2));
        for _ in 0..per / 4 {
            let mut m = honest.clone();
            for _ in 0..rng.range(1, 4) { let p = rng.below(m.len() as u64) as usize; m[p] = match rng.below(4) { 0 => 0xff, 1 => 0, 2 => m[p] ^ (1 << rng.below(8)), _ => rng.u64() as u8 }; }
            inputs.push(m);
        }
        for _ in 0..per / 8 { let n = rng.below(200) as usize; inputs.push(rng.bytes(n)); }
        // CBOR-aware: inflate array/byte-string length heads (major types 2..5 with 8-byte length)
        for _ in 0..per / 8 {
            let mut m = honest.clone();
            if m.len() > 12 { let p = rng.range(1, m.len() as u64 - 10) as usize; m[p] = [0x5b, 0x9b, 0xbb, 0x7b][rng.below(4) as usize]; let v = [u64::MAX, 1 << 40, 1 << 62][rng.below(3) as usize]; m[p + 1..p + 9].copy_from_slice(&be(v)); }
            inputs.push(m);
        }
        for b in inputs {
            let hx = || hex(&b);
            let bb = b.clone();
            let ff = *f;
            guarded(&mut w, &mut sink, name, b.len(), &hx, move || ff(&bb));
        }
    }
    // hex / JSON-hex string entry points of mithril-common
    type SDec = (&'static str, String, fn(&str) -> bool);
    let sdecs: Vec<SDec> = vec![
        ("ProtocolMultiSignature::try_from(&str)", fake_keys::multi_signature()[0].to_string(), |s| ProtocolMultiSignature::try_from(s).is_ok()),
        ("ProtocolMultiSignature(bytes hex)", { let ms: ProtocolMultiSignature = fake_keys::multi_signature()[0].try_into().unwrap(); ms.to_bytes_hex().unwrap() }, |s| ProtocolMultiSignature::try_from(s).is_ok()),
        ("ProtocolAggregateVerificationKeyForConcatenation::try_from(&str)", fake_keys::aggregate_verification_key_for_concatenation()[0].to_string(), |s| ProtocolAggregateVerificationKeyForConcatenation::try_from(s).is_ok()),
        ("ProtocolSignerVerificationKeyForConcatenation::try_from(&str)", fake_keys::signer_verification_key()[0].to_string(), |s| ProtocolSignerVerificationKeyForConcatenation::try_from(s).is_ok()),
        ("ProtocolSingleSignature::try_from(&str)", fake_keys::single_signature()[0].to_string(), |s| ProtocolSingleSignature::try_from(s).is_ok()),
        ("ProtocolOpCert::try_from(&str)", fake_keys::operational_certificate()[0].to_string(), |s| ProtocolOpCert::try_from(s).is_ok()),
        ("ProtocolGenesisSignature::try_from(&str)", fake_keys::genesis_signature()[0].to_string(), |s| ProtocolGenesisSignature::try_from(s).is_ok()),
        ("CertificateMessage (JSON)", serde_json::to_string(&CertificateMessage::try_from(mithril_common::test::double::fake_data::certificate("h")).unwrap()).unwrap(), |s| serde_json::from_str::<CertificateMessage>(s).is_ok()),
        ("CardanoTransactionsProofsMessage (JSON)", r#"{"certificate_hash":"h","certified_transactions":[{"transactions_hashes":["a"],"proof":"00"}],"non_certified_transactions":[],"latest_block_number":1}"#.to_string(), |s| serde_json::from_str::<CardanoTransactionsProofsMessage>(s).map(|m| { let _ = m.verify(); true }).unwrap_or(false)),
    ];
    let sper = if args.thorough() { 6_000 } else { 300 };
    for (name, honest, f) in &sdecs {
        let mut inputs: Vec<String> = vec![honest.clone(), String::new(), "zz".into(), "0".into()];
        let hb = honest.as_bytes();
        for _ in 0..sper {
            let mut m = hb.to_vec();
            match rng.below(4) {
                0 => { let n = rng.below(m.len() as u64 + 1) as usize; m.truncate(n); }
                1 => { for _ in 0..rng.range(1, 3) { let p = rng.below(m.len() as u64) as usize; m[p] = b"0123456789abcdef{}[],:\"x"[rng.below(24) as usize]; } }
                2 => { // decode hex, mutate the inner bytes, re-encode
                    if let Ok(mut inner) = hex::decode(&m) { if !inner.is_empty() { for _ in 0..rng.range(1, 3) { let p = rng.below(inner.len() as u64) as usize; inner[p] = rng.u64() as u8; } if rng.chance(1, 3) && inner.len() > 9 { let p = rng.below(inner.len() as u64 - 8) as usize; inner[p..p + 8].copy_from_slice(&be([u64::MAX, 1 << 44][rng.below(2) as usize])); } m = hex::encode(inner).into_bytes(); } }
                }
                _ => { let p = rng.below(m.len() as u64 + 1) as usize; m.insert(p, b'9'); }
            }
            if let Ok(s) = String::from_utf8(m) { inputs.push(s); }
        }
        for s in inputs {
            let ss = s.clone();
            let hx = || ss.clone();
            let s2 = s.clone();
            let ff = *f;
            guarded(&mut w, &mut sink, name, s.len(), &hx, move || ff(&s2));
        }
    }
    sink.note("decoder_calls_under_panic_hook_and_allocation_counter", &w.calls.to_string());
    sink.note("panics", &w.panics.to_string());
    sink.note("oversized_allocations", &w.big.to_string());

    // ---- (3) nested MKMapProof recursion depth, in a child process ------------------------------
    let depth = 200_000usize;
    let st = std::process::Command::new(std::env::current_exe().unwrap()).args(["--child", "mkmap", &depth.to_string()]).output();
    let crashed = st.map(|o| !o.status.success()).unwrap_or(false);
    sink.witness("C05-mkmap-depth", crashed, &format!("MKMapProof::<BlockRange>::from_bytes on a {}-fold nested empty proof ({} bytes): child process {}", depth, depth * 7 + 5, if crashed { "died (stack overflow)" } else { "returned" }));
    sink.finish();
}
