//! C05 harness. (1) K: the legacy byte layouts of single signatures, signature+party and aggregate
//! signatures assembled by hand from real components, truncated at every length and with every length
//! prefix set to boundary values, decoded by the real `from_bytes` and by the Lean model `LegacyDec`.
//! (2) S (a test, not a proof — the third-party codecs are not modelled): every public byte / hex / JSON
//! entry point of the wire types on honest encodings and structure-aware / random mutations of them, under a
//! panic hook and a counting allocator: no panic, no single allocation out of proportion to the input,
//! honest values round-trip. (3) the nested `MKMapProof` recursion-depth witness in a child process.
#[path = "../common/stmsetup.rs"]
mod stmsetup;
use hutil::{catch, hex, Args, Rng, Sink};
use mithril_common::crypto_helper::{MKMapProof, MKProof, ProtocolAggregateVerificationKeyForConcatenation, GenesisEd25519Signature as ProtocolGenesisSignature, ProtocolMultiSignature, ProtocolOpCert, ProtocolSignerVerificationKeyForConcatenation, ProtocolSingleSignature};
use mithril_common::entities::BlockRange;
use mithril_common::messages::{CardanoTransactionsProofsMessage, CertificateMessage};
use mithril_common::test::double::fake_keys;
use mithril_stm::{AggregateSignature, AggregateVerificationKeyForConcatenation, Initializer, Parameters, SingleSignature, SingleSignatureWithRegisteredParty, VerificationKeyForConcatenation, VerificationKeyProofOfPossessionForConcatenation};
use std::alloc::{GlobalAlloc, Layout, System};
use std::sync::atomic::{AtomicUsize, Ordering};
use stmsetup::*;

struct Counting;
static MAX_ALLOC: AtomicUsize = AtomicUsize::new(0);
unsafe impl GlobalAlloc for Counting {
    unsafe fn alloc(&self, l: Layout) -> *mut u8 { MAX_ALLOC.fetch_max(l.size(), Ordering::Relaxed); System.alloc(l) }
    unsafe fn dealloc(&self, p: *mut u8, l: Layout) { System.dealloc(p, l) }
    unsafe fn realloc(&self, p: *mut u8, l: Layout, n: usize) -> *mut u8 { MAX_ALLOC.fetch_max(n, Ordering::Relaxed); System.realloc(p, l, n) }
}
#[global_allocator]
static A: Counting = Counting;

fn be(n: u64) -> [u8; 8] { n.to_be_bytes() }

fn bytes_of(v: &serde_json::Value) -> Vec<u8> { v.as_array().unwrap().iter().map(|x| x.as_u64().unwrap() as u8).collect() }

fn legacy_single(idx: &[u64], sigma: &[u8], signer: u64) -> Vec<u8> {
    let mut o = be(idx.len() as u64).to_vec();
    for i in idx { o.extend(be(*i)); }
    o.extend_from_slice(sigma);
    o.extend(be(signer));
    o
}
fn legacy_reg(vk: &[u8], stake: u64) -> Vec<u8> { let mut o = vk.to_vec(); o.extend(be(stake)); o }
fn legacy_sigreg(reg: &[u8], sig: &[u8]) -> Vec<u8> {
    let mut o = be(reg.len() as u64).to_vec(); o.extend_from_slice(reg); o.extend(be(sig.len() as u64)); o.extend_from_slice(sig); o
}
fn legacy_path(values: &[Vec<u8>], indices: &[u64]) -> Vec<u8> {
    let mut o = be(values.len() as u64).to_vec(); o.extend(be(indices.len() as u64));
    for v in values { o.extend_from_slice(v); }
    for i in indices { o.extend(be(*i)); }
    o
}
fn legacy_aggregate(sigregs: &[Vec<u8>], path: &[u8]) -> Vec<u8> {
    let mut o = vec![0u8];
    o.extend(be(sigregs.len() as u64));
    for s in sigregs { o.extend(be(s.len() as u64)); o.extend_from_slice(s); }
    o.extend_from_slice(path);
    o
}

/// positions of the 8-byte length / count prefixes of an input built by the functions above are not tracked:
/// every 8-aligned-from-some-offset window is tried instead (all offsets for short inputs, sampled for long ones)
fn prefix_mutations(rng: &mut Rng, b: &[u8], max: usize) -> Vec<Vec<u8>> {
    let vals = [0u64, 1, 2, (b.len() as u64).saturating_sub(1), b.len() as u64, b.len() as u64 + 1, 1 << 32, 1 << 44, 1 << 61, 1 << 63, u64::MAX - 8, u64::MAX - 7, u64::MAX];
    let mut out = vec![];
    if b.len() < 8 { return out; }
    let mut offs: Vec<usize> = (0..=b.len() - 8).collect();
    if offs.len() * vals.len() > max { rng.shuffle(&mut offs); offs.truncate(max / vals.len()); offs.push(0); offs.push(1); offs.push(9); }
    for o in offs {
        if o + 8 > b.len() { continue; }
        for v in vals { let mut m = b.to_vec(); m[o..o + 8].copy_from_slice(&be(v)); out.push(m); }
    }
    out
}

fn canon_single(v: &serde_json::Value) -> String {
    format!("({},{},{})", hutil::list(&v["indexes"].as_array().unwrap().iter().map(|x| x.as_u64().unwrap()).collect::<Vec<_>>()), hex(&bytes_of(&v["sigma"])), v["signer_index"])
}
fn canon_pair(v: &serde_json::Value) -> String {
    format!("({},{},{},{},{})", hutil::list(&v[0]["indexes"].as_array().unwrap().iter().map(|x| x.as_u64().unwrap()).collect::<Vec<_>>()), hex(&bytes_of(&v[0]["sigma"])), v[0]["signer_index"], hex(&bytes_of(&v[1][0])), v[1][1])
}

/// `t` with the character at each of the given CHARACTER positions replaced by a 2-, 3- and 4-byte character (so that
/// a multi-byte character straddles every byte offset in turn), plus the same characters inserted
fn non_ascii_variants(t: &str, positions: &[usize]) -> Vec<String> {
    let chars: Vec<char> = t.chars().collect();
    let mut out = vec![];
    for &p in positions {
        for c in ['\u{e9}', '\u{20ac}', '\u{1f600}'] {
            if p < chars.len() { let mut v = chars.clone(); v[p] = c; out.push(v.into_iter().collect()); }
            if p <= chars.len() { let mut v = chars.clone(); v.insert(p, c); out.push(v.into_iter().collect()); }
        }
    }
    out
}

struct Watch { panics: u64, big: u64, calls: u64 }

// ---- structure-aware mutations: walk the JSON / CBOR tree of an honest encoding ----------------
type J = serde_json::Value;
fn j_paths(v: &J, cur: &mut Vec<usize>, out: &mut Vec<Vec<usize>>) {
    out.push(cur.clone());
    match v {
        J::Array(a) => {
            // long homogeneous arrays (byte strings as number lists): only the ends
            let idxs: Vec<usize> = if a.len() > 8 { vec![0, 1, a.len() - 1] } else { (0..a.len()).collect() };
            for i in idxs { cur.push(i); j_paths(&a[i], cur, out); cur.pop(); }
        }
        J::Object(o) => { for i in 0..o.len() { cur.push(i); j_paths(o.values().nth(i).unwrap(), cur, out); cur.pop(); } }
        _ => {}
    }
}
fn j_at<'a>(v: &'a mut J, path: &[usize]) -> &'a mut J {
    let mut c = v;
    for &i in path { c = match c { J::Array(a) => &mut a[i], J::Object(o) => o.values_mut().nth(i).unwrap(), _ => unreachable!() }; }
    c
}
/// every single-node mutation of `honest`
fn j_mutations(honest: &J) -> Vec<J> {
    let mut paths = vec![]; j_paths(honest, &mut vec![], &mut paths);
    let mut out = vec![];
    for p in &paths {
        let node = { let mut h = honest.clone(); j_at(&mut h, p).clone() };
        let mut variants: Vec<J> = vec![J::Null, serde_json::json!([]), serde_json::json!({}), serde_json::json!("x"), serde_json::json!(0), serde_json::json!(true)];
        match &node {
            J::Array(a) => {
                let last = a.last().cloned().unwrap_or(serde_json::json!(0));
                for extra in [last.clone(), serde_json::json!(0), serde_json::json!(255), serde_json::json!(256), serde_json::json!(-1), serde_json::json!("x"), J::Null, serde_json::json!([]), serde_json::json!(1.5)] { let mut b = a.clone(); b.push(extra); variants.push(J::Array(b)); }
                { let mut b = a.clone(); b.insert(0, last.clone()); variants.push(J::Array(b)); }
                { let mut b = a.clone(); b.extend(a.iter().cloned()); variants.push(J::Array(b)); }
                if !a.is_empty() { let mut b = a.clone(); b.pop(); variants.push(J::Array(b)); let mut b = a.clone(); b.remove(0); variants.push(J::Array(b)); }
                if a.len() >= 2 { let mut b = a.clone(); b.swap(0, 1); variants.push(J::Array(b)); let mut b = a.clone(); b.reverse(); variants.push(J::Array(b.clone())); b.truncate(1); variants.push(J::Array(b)); }
                { let mut b = a.clone(); for _ in 0..300 { b.push(last.clone()); } variants.push(J::Array(b)); }
            }
            J::Number(_) => { for n in [serde_json::json!(1), serde_json::json!(255), serde_json::json!(256), serde_json::json!(-1), serde_json::json!(u64::MAX), serde_json::json!(u64::MAX - 1), serde_json::json!(1u64 << 53), serde_json::json!(1u64 << 32), serde_json::json!(i64::MIN), serde_json::json!(1.5), serde_json::json!(1e300), serde_json::json!(0.0), serde_json::json!(1.0), serde_json::json!("1")] { variants.push(n); } }
            J::String(t) => { variants.push(serde_json::json!("")); variants.push(serde_json::json!(format!("{}0", t))); variants.push(serde_json::json!(t.chars().skip(1).collect::<String>())); variants.push(serde_json::json!("zz")); variants.push(serde_json::json!(t.repeat(3))); variants.push(serde_json::json!(t.to_uppercase()));
                let n = t.chars().count();
                let mut pos: Vec<usize> = (0..n.min(70)).collect();
                pos.extend([n / 2, n.saturating_sub(1), n]);
                for x in non_ascii_variants(t, &pos) { variants.push(serde_json::json!(x)); } }
            J::Object(o) => {
                for k in o.keys() { let mut b = o.clone(); b.remove(k); variants.push(J::Object(b)); }
                { let mut b = o.clone(); b.insert("unknown_field".into(), serde_json::json!(1)); variants.push(J::Object(b)); }
                for (k, val) in o.iter() { let mut b = o.clone(); b.remove(k); b.insert(format!("{}_", k), val.clone()); variants.push(J::Object(b)); }
            }
            _ => {}
        }
        for v in variants { if v != node { let mut h = honest.clone(); *j_at(&mut h, p) = v; out.push(h); } }
    }
    out
}

type C = ciborium::Value;
fn c_children(v: &C) -> usize { match v { C::Array(a) => a.len(), C::Map(m) => m.len() * 2, C::Tag(_, _) => 1, _ => 0 } }
fn c_child<'a>(v: &'a mut C, i: usize) -> &'a mut C {
    match v { C::Array(a) => &mut a[i], C::Map(m) => { let e = &mut m[i / 2]; if i % 2 == 0 { &mut e.0 } else { &mut e.1 } }, C::Tag(_, b) => &mut **b, _ => unreachable!() }
}
fn c_paths(v: &mut C, cur: &mut Vec<usize>, out: &mut Vec<Vec<usize>>) {
    out.push(cur.clone());
    let n = c_children(v);
    let idxs: Vec<usize> = if n > 8 { vec![0, 1, n - 1] } else { (0..n).collect() };
    for i in idxs { cur.push(i); c_paths(c_child(v, i), cur, out); cur.pop(); }
}
fn c_at<'a>(v: &'a mut C, path: &[usize]) -> &'a mut C { let mut c = v; for &i in path { c = c_child(c, i); } c }
fn c_enc(v: &C) -> Vec<u8> { let mut o = vec![]; ciborium::ser::into_writer(v, &mut o).unwrap(); o }
/// every single-node mutation of a CBOR document; byte strings that are themselves versioned CBOR
/// (the envelopes of the wire types) are mutated inside as well, `depth` levels deep
fn c_mutations(honest: &C, depth: usize) -> Vec<C> {
    let mut h0 = honest.clone();
    let mut paths = vec![]; c_paths(&mut h0, &mut vec![], &mut paths);
    let mut out = vec![];
    for p in &paths {
        let node = { let mut h = honest.clone(); c_at(&mut h, p).clone() };
        let mut variants: Vec<C> = vec![C::Null, C::Array(vec![]), C::Map(vec![]), C::Text("x".into()), C::Integer(0.into()), C::Bool(true), C::Bytes(vec![]), C::Float(1.5)];
        match &node {
            C::Array(a) => {
                let last = a.last().cloned().unwrap_or(C::Integer(0.into()));
                for extra in [last.clone(), C::Integer(0.into()), C::Integer(255.into()), C::Integer(256.into()), C::Integer((-1).into()), C::Text("x".into()), C::Null, C::Bytes(vec![1, 2])] { let mut b = a.clone(); b.push(extra); variants.push(C::Array(b)); }
                { let mut b = a.clone(); b.extend(a.iter().cloned()); variants.push(C::Array(b)); }
                if !a.is_empty() { let mut b = a.clone(); b.pop(); variants.push(C::Array(b)); let mut b = a.clone(); b.remove(0); variants.push(C::Array(b)); }
                if a.len() >= 2 { let mut b = a.clone(); b.swap(0, 1); variants.push(C::Array(b.clone())); b.truncate(1); variants.push(C::Array(b)); }
                { let mut b = a.clone(); for _ in 0..300 { b.push(last.clone()); } variants.push(C::Array(b)); }
                // the same elements as a byte string / as a map
                if let Some(bs) = a.iter().map(|x| x.as_integer().and_then(|i| u8::try_from(i).ok())).collect::<Option<Vec<u8>>>() { variants.push(C::Bytes(bs)); }
            }
            C::Bytes(b) => {
                for extra in [vec![0u8], vec![255u8], b.clone()] { let mut c = b.clone(); c.extend(extra); variants.push(C::Bytes(c)); }
                if !b.is_empty() { let mut c = b.clone(); c.pop(); variants.push(C::Bytes(c)); let mut c = b.clone(); c.remove(0); variants.push(C::Bytes(c)); let mut c = b.clone(); c[0] ^= 1; variants.push(C::Bytes(c)); let mut c = b.clone(); let n = c.len(); c[n - 1] ^= 0x80; variants.push(C::Bytes(c)); }
                variants.push(C::Array(b.iter().map(|x| C::Integer((*x).into())).collect()));
                variants.push(C::Text(hex(b)));
                if depth > 0 && b.first() == Some(&1) {
                    if let Ok(inner) = ciborium::de::from_reader::<C, _>(&b[1..]) {
                        for m in c_mutations(&inner, depth - 1) { let mut c = vec![1u8]; c.extend(c_enc(&m)); variants.push(C::Bytes(c)); }
                    }
                }
            }
            C::Integer(_) => { for n in [1i128, 255, 256, -1, u64::MAX as i128, u64::MAX as i128 - 1, 1 << 53, 1 << 32, i64::MIN as i128, u32::MAX as i128 + 1] { variants.push(C::Integer(ciborium::value::Integer::try_from(n).unwrap())); } variants.push(C::Float(1.0)); variants.push(C::Text("1".into())); }
            C::Text(t) => { variants.push(C::Text(String::new())); variants.push(C::Text(format!("{}0", t))); variants.push(C::Text("zz".into())); variants.push(C::Bytes(t.clone().into_bytes())); }
            C::Map(m) => {
                for i in 0..m.len() { let mut b = m.clone(); b.remove(i); variants.push(C::Map(b)); }
                { let mut b = m.clone(); b.push((C::Text("unknown_field".into()), C::Integer(1.into()))); variants.push(C::Map(b)); }
                if !m.is_empty() { let mut b = m.clone(); b.push(m[0].clone()); variants.push(C::Map(b)); }
                if m.len() >= 2 { let mut b = m.clone(); b.swap(0, 1); variants.push(C::Map(b)); }
                variants.push(C::Array(m.iter().map(|e| e.1.clone()).collect()));
            }
            _ => {}
        }
        for v in variants { if v != node { let mut h = honest.clone(); *c_at(&mut h, p) = v; out.push(h); } }
    }
    out
}

/// run one decoder call under the panic hook and the allocation counter
fn guarded<T>(w: &mut Watch, sink: &mut Sink, what: &str, input_len: usize, input_hex: &dyn Fn() -> String, f: impl FnOnce() -> T + std::panic::UnwindSafe) -> Option<T> {
    w.calls += 1;
    MAX_ALLOC.store(0, Ordering::Relaxed);
    let r = catch(f);
    let m = MAX_ALLOC.load(Ordering::Relaxed);
    if m > 64 * input_len + (1 << 20) {
        w.big += 1;
        let i = sink.next_index();
        sink.sfail(i, "allocation", &format!("{}: single allocation of {} bytes for an input of {} bytes", what, m, input_len), &input_hex());
    }
    match r {
        Ok(v) => Some(v),
        Err(msg) => {
            w.panics += 1;
            let i = sink.next_index();
            sink.sfail(i, "panic", &format!("{} panicked: {}", what, msg), &input_hex());
            None
        }
    }
}

fn child_mkmap(depth: usize) {
    let mut b = vec![];
    for _ in 0..depth { b.extend_from_slice(&[0, 0, 0, 0, 1, 0, 0]); }
    b.extend_from_slice(&[0, 0, 0, 0, 0]);
    let r = MKMapProof::<BlockRange>::from_bytes(&b);
    println!("child decoded: {}", r.is_ok());
}

fn main() {
    let argv: Vec<String> = std::env::args().collect();
    if argv.len() >= 4 && argv[1] == "--child" && argv[2] == "mkmap" {
        child_mkmap(argv[3].parse().unwrap());
        return;
    }
    hutil::quiet_panics();
    let args = Args::parse();
    let mut rng = Rng::new(args.seed);
    let mut sink = Sink::new(&args);
    let mut w = Watch { panics: 0, big: 0, calls: 0 };

    // ---- real components -------------------------------------------------------------------
    let params = Parameters { m: 12, k: 3, phi_f: 0.9 };
    let f = fixture(args.seed, &[3, 5, 7, 11], params);
    let msg = b"c05".to_vec();
    let sigs: Vec<SingleSignature> = f.signers.iter().filter_map(|s| s.create_single_signature(&msg).ok()).collect();
    let agg = aggregate(&f, &f.clerk, &sigs, &msg).unwrap();
    let aggv = serde_json::to_value(&agg).unwrap();
    let pairs = aggv["signatures"].as_array().unwrap();
    let mut valid_sig: Vec<Vec<u8>> = pairs.iter().map(|p| bytes_of(&p[0]["sigma"])).collect();
    let mut valid_vk: Vec<Vec<u8>> = pairs.iter().map(|p| bytes_of(&p[1][0])).collect();
    // the aggregate usually keeps ONE (signature, party) pair: the components of EVERY signer are needed to assemble
    // multi-element layouts, and the point oracle has to know them
    struct Comp { idx: Vec<u64>, sigma: Vec<u8>, signer: u64, vk: Vec<u8>, stake: u64, cbor_single: Vec<u8>, cbor_reg: Vec<u8>, cbor_sigreg: Vec<u8> }
    fn c_field(v: &C, k: &str) -> Vec<u8> {
        let f = v.as_map().unwrap().iter().find(|e| e.0.as_text() == Some(k)).unwrap().1.clone();
        match f { C::Bytes(b) => b, C::Array(a) => a.iter().map(|x| u8::try_from(x.as_integer().unwrap()).unwrap()).collect(), _ => unreachable!() }
    }
    let comps: Vec<Comp> = sigs.iter().map(|s| {
        let v = serde_json::to_value(s).unwrap();
        let signer = v["signer_index"].as_u64().unwrap();
        let (vk, stake) = f.by_slot[signer as usize];
        let vk = vk.to_bytes().to_vec();
        let sr: SingleSignatureWithRegisteredParty = serde_json::from_value(serde_json::json!([v, [vk, stake]])).unwrap();
        let cbor_sigreg = sr.to_bytes().unwrap();
        let env: C = ciborium::de::from_reader(&cbor_sigreg[1..]).unwrap();
        Comp { idx: v["indexes"].as_array().unwrap().iter().map(|x| x.as_u64().unwrap()).collect(), sigma: bytes_of(&v["sigma"]), signer, vk, stake,
               cbor_single: c_field(&env, "signature_bytes"), cbor_reg: c_field(&env, "registration_entry_bytes"), cbor_sigreg }
    }).collect();
    for c in &comps { if !valid_sig.contains(&c.sigma) { valid_sig.push(c.sigma.clone()); } if !valid_vk.contains(&c.vk) { valid_vk.push(c.vk.clone()); } }
    let oracle = format!("validsig=[{}] validvk=[{}]", valid_sig.iter().map(|b| hex(b)).collect::<Vec<_>>().join(","), valid_vk.iter().map(|b| hex(b)).collect::<Vec<_>>().join(","));

    let singles: Vec<Vec<u8>> = pairs.iter().map(|p| legacy_single(&p[0]["indexes"].as_array().unwrap().iter().map(|x| x.as_u64().unwrap()).collect::<Vec<_>>(), &bytes_of(&p[0]["sigma"]), p[0]["signer_index"].as_u64().unwrap())).collect();
    let regs: Vec<Vec<u8>> = pairs.iter().map(|p| legacy_reg(&bytes_of(&p[1][0]), p[1][1].as_u64().unwrap())).collect();
    let sigregs: Vec<Vec<u8>> = singles.iter().zip(regs.iter()).map(|(s, r)| legacy_sigreg(r, s)).collect();
    let values: Vec<Vec<u8>> = aggv["batch_proof"]["values"].as_array().unwrap().iter().map(bytes_of).collect();
    let indices: Vec<u64> = aggv["batch_proof"]["indices"].as_array().unwrap().iter().map(|x| x.as_u64().unwrap()).collect();
    let path = legacy_path(&values, &indices);
    let legacy_agg = legacy_aggregate(&sigregs, &path);

    // ---- (1) K on the legacy layouts --------------------------------------------------------
    let budget = if args.thorough() { 40_000 } else { 2_500 };
    let mut k_case = |sink: &mut Sink, w: &mut Watch, op: &str, tag: &str, b: &[u8]| {
        if !sink.wanted() { sink.skip(); return; }
        let hx = || hex(b);
        let out = match op {
            "single" => {
                let bb = b.to_vec();
                match guarded(w, sink, "SingleSignature::from_bytes", b.len(), &hx, move || SingleSignature::from_bytes::<D>(&bb)) {
                    None => "panic".to_string(),
                    Some(Err(_)) => "err".into(),
                    Some(Ok(s)) => format!("ok {}", canon_single(&serde_json::to_value(&s).unwrap())),
                }
            }
            "sigreg" => {
                let bb = b.to_vec();
                match guarded(w, sink, "SingleSignatureWithRegisteredParty::from_bytes", b.len(), &hx, move || SingleSignatureWithRegisteredParty::from_bytes::<D>(&bb)) {
                    None => "panic".to_string(),
                    Some(Err(_)) => "err".into(),
                    Some(Ok(s)) => format!("ok {}", canon_pair(&serde_json::to_value(&s).unwrap())),
                }
            }
            _ => {
                let bb = b.to_vec();
                match guarded(w, sink, "AggregateSignature::from_bytes", b.len(), &hx, move || AggregateSignature::<D>::from_bytes(&bb)) {
                    None => "panic".to_string(),
                    Some(Err(_)) => "err".into(),
                    Some(Ok(a)) => {
                        let v = serde_json::to_value(&a).unwrap();
                        format!("ok sigs=[{}] path=([{}],{})",
                            v["signatures"].as_array().unwrap().iter().map(canon_pair).collect::<Vec<_>>().join(","),
                            v["batch_proof"]["values"].as_array().unwrap().iter().map(|x| hex(&bytes_of(x))).collect::<Vec<_>>().join(","),
                            hutil::list(&v["batch_proof"]["indices"].as_array().unwrap().iter().map(|x| x.as_u64().unwrap()).collect::<Vec<_>>()))
                    }
                }
            }
        };
        // inputs whose (nested) payload takes the CBOR branch are outside the model: the model answers `cbor`
        let req = format!("c05.{} bytes={} {}", op, hex(b), oracle);
        let cbor_somewhere = b.first() == Some(&1);
        if cbor_somewhere { sink.case("cbor-branch", &format!("c05.{} bytes={} {}", op, hex(&[1u8]), oracle), "unmodelled:cbor"); } else { sink.case(tag, &req, &out); }
    };
    for (op, honest) in [("single", &singles[0]), ("sigreg", &sigregs[0]), ("aggregate", &legacy_agg)] {
        k_case(&mut sink, &mut w, op, "legacy-honest", honest);
        if op == "aggregate" || op == "sigreg" || op == "single" {
            // decoding the honest legacy layout must give the honest value
        }
        for n in 0..honest.len() { k_case(&mut sink, &mut w, op, "legacy-truncated", &honest[..n]); }
        for m in prefix_mutations(&mut rng, honest, budget) { k_case(&mut sink, &mut w, op, "legacy-prefix-inflated", &m); }
        // trailing garbage and splices
        let mut t = honest.to_vec(); t.extend(rng.bytes(17)); k_case(&mut sink, &mut w, op, "legacy-trailing", &t);
    }
    // the fixed-finding inputs
    {
        let mut evil = vec![0xffu8; 8]; evil.extend(vec![0u8; 16]);
        k_case(&mut sink, &mut w, "sigreg", "corpus", &evil);
        let mut evil2 = vec![0u8]; evil2.extend(be(u64::MAX)); evil2.extend(vec![0u8; 15]);
        k_case(&mut sink, &mut w, "aggregate", "corpus", &evil2);
        let mut evil3 = vec![0u8]; evil3.extend(be(1 << 44)); evil3.extend(vec![0u8; 15]);
        k_case(&mut sink, &mut w, "aggregate", "corpus", &evil3);
        let mut evil4 = vec![0u8]; evil4.extend(be(1)); evil4.extend(be(u64::MAX - 3)); evil4.extend(vec![0u8; 15]);
        k_case(&mut sink, &mut w, "aggregate", "corpus", &evil4);
    }

    // ---- (1b) K on assembled layouts the mutations above never reach with success ------------------
    // several elements per aggregate, zero counts, trailing bytes INSIDE nested slices, every tracked length /
    // count field set to near values, every type byte, and CBOR payloads nested in legacy envelopes (those the
    // model declares `unmodelled:cbor`; they still run under the panic hook and the allocation counter)
    {
        let single_of = |c: &Comp| legacy_single(&c.idx, &c.sigma, c.signer);
        let reg_of = |c: &Comp| legacy_reg(&c.vk, c.stake);
        let elem = |i: usize| { let c = &comps[i % comps.len()]; legacy_sigreg(&reg_of(c), &single_of(c)) };
        let with = |b: &[u8], extra: &[u8]| { let mut x = b.to_vec(); x.extend_from_slice(extra); x };
        let first1 = |b: &[u8]| { let mut x = b.to_vec(); if !x.is_empty() { x[0] = 1; } x };
        let set8 = |b: &[u8], at: usize, v: u64| { let mut x = b.to_vec(); x[at..at + 8].copy_from_slice(&be(v)); x };
        // single signatures
        for c in &comps {
            let h = single_of(c);
            k_case(&mut sink, &mut w, "single", "asm-honest", &h);
            k_case(&mut sink, &mut w, "single", "asm-zero-index", &legacy_single(&[], &c.sigma, c.signer));
            k_case(&mut sink, &mut w, "single", "asm-big-values", &legacy_single(&[u64::MAX, 0, 1 << 63, 1 << 56], &c.sigma, u64::MAX));
            for t in [1usize, 8, 48, 56, 104] { k_case(&mut sink, &mut w, "single", "asm-trailing", &with(&h, &rng.bytes(t))); k_case(&mut sink, &mut w, "single", "asm-trailing", &with(&h, &vec![1u8; t])); }
            for d in [-1i64, 1] { k_case(&mut sink, &mut w, "single", "asm-count-off", &set8(&h, 0, (c.idx.len() as i64 + d) as u64)); }
            let mut inf = vec![0u8; 48]; inf[0] = 0xc0;
            let mut unc = c.sigma.clone(); unc[0] &= 0x7f;
            for s in [vec![0u8; 48], inf, unc, c.vk[..48].to_vec()] { k_case(&mut sink, &mut w, "single", "asm-bad-point", &legacy_single(&c.idx, &s, c.signer)); }
        }
        // signature + party: nested parts with trailing bytes, short, empty, CBOR
        let c0 = &comps[0];
        let regs: Vec<(&str, Vec<u8>)> = vec![("reg", reg_of(c0)), ("reg+1", with(&reg_of(c0), &[7])), ("reg+96", with(&reg_of(c0), &rng.bytes(96))), ("reg-stake-max", legacy_reg(&c0.vk, u64::MAX)),
            ("reg-103", reg_of(c0)[..103].to_vec()), ("reg-empty", vec![]), ("reg-01", vec![1]), ("reg-first-byte-1", first1(&reg_of(c0))), ("reg-cbor", c0.cbor_reg.clone()), ("reg-cbor+5", with(&c0.cbor_reg, &rng.bytes(5)))];
        let sgs: Vec<(&str, Vec<u8>)> = vec![("sig", single_of(c0)), ("sig-zero-index", legacy_single(&[], &c0.sigma, c0.signer)), ("sig+1", with(&single_of(c0), &[7])), ("sig+56", with(&single_of(c0), &rng.bytes(56))),
            ("sig-short", { let s = single_of(c0); s[..s.len() - 1].to_vec() }), ("sig-empty", vec![]), ("sig-01", vec![1]), ("sig-first-byte-1", first1(&single_of(c0))), ("sig-cbor", c0.cbor_single.clone())];
        for (rt, r) in &regs { for (st, s) in &sgs { k_case(&mut sink, &mut w, "sigreg", &format!("asm-{}|{}", rt, st), &legacy_sigreg(r, s)); } }
        {
            let e = elem(0);
            for v in [u64::MAX, u64::MAX - 7, u64::MAX - 8, u64::MAX - 15, u64::MAX - 16, 1 << 63] { k_case(&mut sink, &mut w, "sigreg", "asm-size-huge", &set8(&e, 0, v)); k_case(&mut sink, &mut w, "sigreg", "asm-size-huge", &set8(&e, 112, v)); }
            for d in [-1i64, 1] { k_case(&mut sink, &mut w, "sigreg", "asm-sigsize-off", &set8(&e, 112, ((e.len() - 120) as i64 + d) as u64)); }
        }
        // aggregates: lists of elements x paths
        let hp = path.clone();
        let cbor_path = { let env: C = ciborium::de::from_reader(&agg.to_bytes().unwrap()[1..]).unwrap(); let pb = c_field(&env, "proof_bytes"); let penv: C = ciborium::de::from_reader(&pb[1..]).unwrap(); c_field(&penv, "batch_proof_bytes") };
        let paths: Vec<(&str, Vec<u8>)> = vec![("path", hp.clone()), ("path-empty", legacy_path(&[], &[])), ("path-cbor", cbor_path), ("path+8", with(&hp, &rng.bytes(8))), ("path-short", hp[..hp.len() - 1].to_vec()), ("path-first-byte-1", first1(&hp)),
            ("path-0v", legacy_path(&[], &[1, 2, u64::MAX])), ("path-0i", legacy_path(&values, &[])), ("path-many", legacy_path(&(0..5).map(|i| vec![i as u8; 32]).collect::<Vec<_>>(), &[0, 1 << 40, u64::MAX, 3])),
            ("path-15", hp[..15].to_vec()), ("path-none", vec![]), ("path-01", vec![1]),
            ("path-lenv-huge", set8(&hp, 0, (u64::MAX >> 5) + 1)), ("path-leni-huge", set8(&hp, 8, 1 << 61)), ("path-leni-max", set8(&hp, 8, u64::MAX))];
        let c1 = &comps[1 % comps.len()];
        let mut elems: Vec<(String, Vec<u8>)> = (0..comps.len()).map(|i| (format!("el{}", i), elem(i))).collect();
        elems.push(("el+9".into(), with(&elem(0), &rng.bytes(9))));
        elems.push(("el-zero-index".into(), legacy_sigreg(&reg_of(c1), &legacy_single(&[], &c1.sigma, c1.signer))));
        elems.push(("el-cbor".into(), c0.cbor_sigreg.clone()));
        elems.push(("el-mixed".into(), legacy_sigreg(&c1.cbor_reg, &c1.cbor_single)));
        elems.push(("el-mixed-reg".into(), legacy_sigreg(&c1.cbor_reg, &single_of(c1))));
        elems.push(("el-empty".into(), vec![]));
        elems.push(("el-01".into(), vec![1]));
        elems.push(("el-short".into(), { let e = elem(2); e[..e.len() - 1].to_vec() }));
        let mut lists: Vec<(String, Vec<Vec<u8>>)> = vec![("[]".into(), vec![])];
        for (t, e) in &elems { lists.push((format!("[{}]", t), vec![e.clone()])); }
        for (t1, e1) in &elems { for (t2, e2) in &elems { lists.push((format!("[{},{}]", t1, t2), vec![e1.clone(), e2.clone()])); } }
        lists.push(("[el0,el1,el2]".into(), (0..3).map(elem).collect()));
        lists.push(("[el0,el1,el2,el3]".into(), (0..4).map(elem).collect()));
        lists.push(("[el0,el-cbor,el2]".into(), vec![elem(0), c0.cbor_sigreg.clone(), elem(2)]));
        for (lt, l) in &lists {
            for (i, (pt, p)) in paths.iter().enumerate() {
                if l.len() >= 2 && i >= 6 { continue; }
                k_case(&mut sink, &mut w, "aggregate", &format!("asm-{}/{}", lt, pt), &legacy_aggregate(l, p));
            }
        }
        // declared number of elements differs from the actual one
        for (k, d) in [(2usize, 1u64), (2, 3), (1, 0), (1, 2), (0, 1), (3, 2), (3, u64::MAX), (3, 1 << 61)] {
            let mut a = legacy_aggregate(&(0..k).map(elem).collect::<Vec<_>>(), &hp);
            a[1..9].copy_from_slice(&be(d));
            k_case(&mut sink, &mut w, "aggregate", "asm-declared-count", &a);
        }
        // a three-element aggregate: every truncation, every type byte, every tracked 8-byte field set to near values
        let l3: Vec<Vec<u8>> = (0..3).map(elem).collect();
        let a3 = legacy_aggregate(&l3, &hp);
        for n in 0..a3.len() { k_case(&mut sink, &mut w, "aggregate", "asm-truncated", &a3[..n]); }
        for t in [1u8, 2, 3, 0x7f, 0x80, 0xff] { let mut x = a3.clone(); x[0] = t; k_case(&mut sink, &mut w, "aggregate", "asm-type-byte", &x); }
        { let mut x = a3.clone(); x[1] = 1; k_case(&mut sink, &mut w, "aggregate", "asm-proof-first-byte-1", &x); }
        { let env: C = ciborium::de::from_reader(&agg.to_bytes().unwrap()[1..]).unwrap(); k_case(&mut sink, &mut w, "aggregate", "asm-type0+cbor-proof", &with(&[0u8], &c_field(&env, "proof_bytes"))); }
        let mut pos: Vec<usize> = vec![1];
        let mut p = 9usize;
        for e in &l3 { pos.extend([p, p + 8, p + 8 + 8 + 96, p + 8 + 8 + 104, p + 8 + 8 + 104 + 8, p + 8 + e.len() - 8]); p += 8 + e.len(); }
        pos.push(p); pos.push(p + 8);
        for &q in &pos {
            let cur = u64::from_be_bytes(a3[q..q + 8].try_into().unwrap());
            for v in [0u64, 1, 2, cur.wrapping_sub(8), cur.wrapping_sub(1), cur.wrapping_add(1), cur.wrapping_add(8), cur | (1 << 56), 1 << 56, 1 << 32, 1 << 61, 1 << 63, u64::MAX - 8, u64::MAX - 7, u64::MAX] {
                k_case(&mut sink, &mut w, "aggregate", "asm-field", &set8(&a3, q, v));
            }
        }
    }

    // ---- (2) every public entry point: honest encodings, round trips, mutations ---------------
    let cbor_agg = agg.to_bytes().unwrap();
    let cbor_single = sigs[0].to_bytes().unwrap();
    let avk = f.avk.to_concatenation_aggregate_verification_key().clone();
    let avk_bytes = avk.to_bytes().unwrap();
    let init_bytes = f.initializers[0].to_bytes().unwrap();
    let vk_bytes = f.by_slot[0].0.to_bytes().to_vec();
    let vkpop_bytes = f.initializers[0].get_verification_key_proof_of_possession_for_concatenation().to_bytes().to_vec();
    let params_bytes = params.to_bytes().unwrap();
    // round trips
    {
        let mut fail = |what: &str| { let i = sink.next_index(); sink.sfail(i, "roundtrip", &format!("{} does not round-trip", what), what); };
        if AggregateSignature::<D>::from_bytes(&cbor_agg).map(|a| serde_json::to_value(&a).unwrap() != aggv).unwrap_or(true) { fail("AggregateSignature (CBOR)"); }
        if AggregateSignature::<D>::from_bytes(&legacy_agg).map(|a| serde_json::to_value(&a).unwrap() != aggv).unwrap_or(true) { fail("AggregateSignature (legacy layout)"); }
        if SingleSignature::from_bytes::<D>(&cbor_single).map(|s| s != sigs[0] || s.get_concatenation_signature_indices() != sigs[0].get_concatenation_signature_indices()).unwrap_or(true) { fail("SingleSignature"); }
        if AggregateVerificationKeyForConcatenation::<D>::from_bytes(&avk_bytes).map(|a| a != avk).unwrap_or(true) { fail("AggregateVerificationKeyForConcatenation"); }
        if Parameters::from_bytes(&params_bytes).map(|p| p != params).unwrap_or(true) { fail("Parameters"); }
        if VerificationKeyForConcatenation::from_bytes(&vk_bytes).map(|k| k != f.by_slot[0].0).unwrap_or(true) { fail("VerificationKeyForConcatenation"); }
        let ms: ProtocolMultiSignature = fake_keys::multi_signature()[0].try_into().unwrap();
        if ProtocolMultiSignature::try_from(ms.to_json_hex().unwrap().as_str()).map(|b| b.to_json_hex().unwrap() != ms.to_json_hex().unwrap()).unwrap_or(true) { fail("ProtocolMultiSignature json hex"); }
        if ProtocolMultiSignature::try_from(ms.to_bytes_hex().unwrap().as_str()).map(|b| b.to_json_hex().unwrap() != ms.to_json_hex().unwrap()).unwrap_or(true) { fail("ProtocolMultiSignature bytes hex"); }
    }
    type Dec = (&'static str, Vec<u8>, fn(&[u8]) -> bool);
    let decs: Vec<Dec> = vec![
        ("AggregateSignature::from_bytes", cbor_agg.clone(), |b| AggregateSignature::<D>::from_bytes(b).is_ok()),
        ("AggregateSignature::from_bytes(legacy)", legacy_agg.clone(), |b| AggregateSignature::<D>::from_bytes(b).is_ok()),
        ("SingleSignature::from_bytes", cbor_single.clone(), |b| SingleSignature::from_bytes::<D>(b).is_ok()),
        ("SingleSignatureWithRegisteredParty::from_bytes", sigregs[0].clone(), |b| SingleSignatureWithRegisteredParty::from_bytes::<D>(b).is_ok()),
        ("AggregateVerificationKeyForConcatenation::from_bytes", avk_bytes.clone(), |b| AggregateVerificationKeyForConcatenation::<D>::from_bytes(b).is_ok()),
        ("Initializer::from_bytes", init_bytes.clone(), |b| Initializer::from_bytes(b).is_ok()),
        ("Parameters::from_bytes", params_bytes.clone(), |b| Parameters::from_bytes(b).is_ok()),
        ("VerificationKeyForConcatenation::from_bytes", vk_bytes.clone(), |b| VerificationKeyForConcatenation::from_bytes(b).is_ok()),
        ("VerificationKeyProofOfPossessionForConcatenation::from_bytes", vkpop_bytes.clone(), |b| VerificationKeyProofOfPossessionForConcatenation::from_bytes(b).is_ok()),
        ("MKProof::from_bytes", { let t = mithril_common::crypto_helper::MKTree::<mithril_common::crypto_helper::MKTreeStoreInMemory>::new(&["a", "b", "c", "d", "e"]).unwrap(); t.compute_proof(&["b".into(), "d".into()]).unwrap().to_bytes().unwrap() }, |b| MKProof::from_bytes(b).is_ok()),
        ("MKMapProof::from_bytes", {
            let entries: Vec<(BlockRange, mithril_common::crypto_helper::MKMapNode<BlockRange, mithril_common::crypto_helper::MKTreeStoreInMemory>)> = (0..3u64).map(|r| (BlockRange::from_block_number(mithril_common::entities::BlockNumber(r * 15)), mithril_common::crypto_helper::MKMapNode::Tree(std::sync::Arc::new(mithril_common::crypto_helper::MKTree::new(&[format!("x{}", r), format!("y{}", r)]).unwrap())))).collect();
            let m = mithril_common::crypto_helper::MKMap::<BlockRange, _, mithril_common::crypto_helper::MKTreeStoreInMemory>::new(&entries).unwrap();
            m.compute_proof(&["x1".to_string(), "y2".to_string()]).unwrap().to_bytes().unwrap()
        }, |b| MKMapProof::<BlockRange>::from_bytes(b).is_ok()),
    ];
    let per = if args.thorough() { 40_000 } else { 1_500 };
    for (name, honest, f) in &decs {
        let mut inputs: Vec<Vec<u8>> = vec![honest.clone()];
        for n in 0..honest.len().min(400) { inputs.push(honest[..n].to_vec()); }
        inputs.extend(prefix_mutations(&mut rng, honest, per / 2));
        for _ in 0..per / 4 {
            let mut m = honest.clone();
            for _ in 0..rng.range(1, 4) { let p = rng.below(m.len() as u64) as usize; m[p] = match rng.below(4) { 0 => 0xff, 1 => 0, 2 => m[p] ^ (1 << rng.below(8)), _ => rng.u64() as u8 }; }
            inputs.push(m);
        }
        for _ in 0..per / 8 { let n = rng.below(200) as usize; inputs.push(rng.bytes(n)); }
        // CBOR-aware: inflate array/byte-string length heads (major types 2..5 with 8-byte length)
        for _ in 0..per / 8 {
            let mut m = honest.clone();
            if m.len() > 12 { let p = rng.range(1, m.len() as u64 - 10) as usize; m[p] = [0x5b, 0x9b, 0xbb, 0x7b][rng.below(4) as usize]; let v = [u64::MAX, 1 << 40, 1 << 62][rng.below(3) as usize]; m[p + 1..p + 9].copy_from_slice(&be(v)); }
            inputs.push(m);
        }
        for b in inputs {
            let hx = || hex(&b);
            let bb = b.clone();
            let ff = *f;
            guarded(&mut w, &mut sink, name, b.len(), &hx, move || ff(&bb));
        }
        // a decoder is a function of its input: after all the malformed inputs (same thread) the honest encoding
        // must still decode
        {
            let hb = honest.clone();
            let ff = *f;
            if guarded(&mut w, &mut sink, name, honest.len(), &|| hex(honest), move || ff(&hb)) != Some(true) {
                let i = sink.next_index();
                sink.sfail(i, "history-dependent-decoder", &format!("{}: the honest encoding is refused after a series of malformed inputs was decoded on the same thread", name), &hex(honest));
            }
        }
    }
    // hex / JSON-hex string entry points of mithril-common
    type SDec = (&'static str, String, fn(&str) -> bool);
    let sdecs: Vec<SDec> = vec![
        ("ProtocolMultiSignature::try_from(&str)", fake_keys::multi_signature()[0].to_string(), |s| ProtocolMultiSignature::try_from(s).is_ok()),
        ("ProtocolMultiSignature(bytes hex)", { let ms: ProtocolMultiSignature = fake_keys::multi_signature()[0].try_into().unwrap(); ms.to_bytes_hex().unwrap() }, |s| ProtocolMultiSignature::try_from(s).is_ok()),
        ("ProtocolAggregateVerificationKeyForConcatenation::try_from(&str)", fake_keys::aggregate_verification_key_for_concatenation()[0].to_string(), |s| ProtocolAggregateVerificationKeyForConcatenation::try_from(s).is_ok()),
        ("ProtocolSignerVerificationKeyForConcatenation::try_from(&str)", fake_keys::signer_verification_key()[0].to_string(), |s| ProtocolSignerVerificationKeyForConcatenation::try_from(s).is_ok()),
        ("ProtocolSingleSignature::try_from(&str)", fake_keys::single_signature()[0].to_string(), |s| ProtocolSingleSignature::try_from(s).is_ok()),
        ("ProtocolOpCert::try_from(&str)", fake_keys::operational_certificate()[0].to_string(), |s| ProtocolOpCert::try_from(s).is_ok()),
        ("ProtocolGenesisSignature::try_from(&str)", fake_keys::genesis_signature()[0].to_string(), |s| ProtocolGenesisSignature::try_from(s).is_ok()),
        ("CertificateMessage (JSON)", serde_json::to_string(&CertificateMessage::try_from(mithril_common::test::double::fake_data::certificate("h")).unwrap()).unwrap(), |s| serde_json::from_str::<CertificateMessage>(s).is_ok()),
        ("CardanoTransactionsProofsMessage (JSON)", r#"{"certificate_hash":"h","certified_transactions":[{"transactions_hashes":["a"],"proof":"00"}],"non_certified_transactions":[],"latest_block_number":1}"#.to_string(), |s| serde_json::from_str::<CardanoTransactionsProofsMessage>(s).map(|m| { let _ = m.verify(); true }).unwrap_or(false)),
    ];
    let sper = if args.thorough() { 6_000 } else { 300 };
    for (name, honest, f) in &sdecs {
        let mut inputs: Vec<String> = vec![honest.clone(), String::new(), "zz".into(), "0".into()];
        let hb = honest.as_bytes();
        for _ in 0..sper {
            let mut m = hb.to_vec();
            match rng.below(4) {
                0 => { let n = rng.below(m.len() as u64 + 1) as usize; m.truncate(n); }
                1 => { for _ in 0..rng.range(1, 3) { let p = rng.below(m.len() as u64) as usize; m[p] = b"0123456789abcdef{}[],:\"x"[rng.below(24) as usize]; } }
                2 => { // decode hex, mutate the inner bytes, re-encode
                    if let Ok(mut inner) = hex::decode(&m) { if !inner.is_empty() { for _ in 0..rng.range(1, 3) { let p = rng.below(inner.len() as u64) as usize; inner[p] = rng.u64() as u8; } if rng.chance(1, 3) && inner.len() > 9 { let p = rng.below(inner.len() as u64 - 8) as usize; inner[p..p + 8].copy_from_slice(&be([u64::MAX, 1 << 44][rng.below(2) as usize])); } m = hex::encode(inner).into_bytes(); } }
                }
                _ => { let p = rng.below(m.len() as u64 + 1) as usize; m.insert(p, b'9'); }
            }
            if let Ok(s) = String::from_utf8(m) { inputs.push(s); }
        }
        // characters of 2-4 bytes straddling every byte offset of the first 200 bytes, and a few deeper ones, in the honest
        // string and in a clearly undecodable one of the same shape (the error path quotes / slices / measures the input)
        {
            let n = honest.chars().count();
            let mut pos: Vec<usize> = (0..n.min(200)).collect();
            pos.extend([n / 2, n.saturating_sub(2), n.saturating_sub(1), n]);
            for _ in 0..8 { pos.push(rng.below(n as u64 + 1) as usize); }
            inputs.extend(non_ascii_variants(honest, &pos));
            let garbage: String = honest.chars().map(|c| if c.is_ascii_hexdigit() { '7' } else { c }).collect();
            inputs.extend(non_ascii_variants(&garbage, &pos));
        }
        for s in inputs {
            let ss = s.clone();
            let hx = || ss.clone();
            let s2 = s.clone();
            let ff = *f;
            guarded(&mut w, &mut sink, name, s.len(), &hx, move || ff(&s2));
        }
        {
            let h2 = honest.clone();
            let ff = *f;
            if guarded(&mut w, &mut sink, name, honest.len(), &|| honest.clone(), move || ff(&h2)) != Some(true) {
                let i = sink.next_index();
                sink.sfail(i, "history-dependent-decoder", &format!("{}: the honest encoding is refused after a series of malformed inputs was decoded on the same thread", name), honest);
            }
        }
    }
    // ---- (2b) structure-aware mutations of honest encodings: every node of the JSON / CBOR tree ------
    {
        type JDec = (&'static str, J, fn(J) -> bool);
        let mk_tree = mithril_common::crypto_helper::MKTree::<mithril_common::crypto_helper::MKTreeStoreInMemory>::new(&["a", "b", "c", "d", "e"]).unwrap();
        let mk_proof = mk_tree.compute_proof(&["b".into(), "d".into()]).unwrap();
        let jdecs: Vec<JDec> = vec![
            ("SingleSignature (JSON)", serde_json::to_value(&sigs[0]).unwrap(), |v| serde_json::from_value::<SingleSignature>(v).is_ok()),
            ("SingleSignatureWithRegisteredParty (JSON)", aggv["signatures"][0].clone(), |v| serde_json::from_value::<SingleSignatureWithRegisteredParty>(v).is_ok()),
            ("AggregateSignature (JSON)", aggv.clone(), |v| serde_json::from_value::<AggregateSignature<D>>(v).is_ok()),
            ("AggregateVerificationKeyForConcatenation (JSON)", serde_json::to_value(&avk).unwrap(), |v| serde_json::from_value::<AggregateVerificationKeyForConcatenation<D>>(v).is_ok()),
            ("VerificationKeyForConcatenation (JSON)", serde_json::to_value(&f.by_slot[0].0).unwrap(), |v| serde_json::from_value::<VerificationKeyForConcatenation>(v).is_ok()),
            ("VerificationKeyProofOfPossessionForConcatenation (JSON)", serde_json::to_value(&f.initializers[0].get_verification_key_proof_of_possession_for_concatenation()).unwrap(), |v| serde_json::from_value::<VerificationKeyProofOfPossessionForConcatenation>(v).is_ok()),
            ("Parameters (JSON)", serde_json::to_value(&params).unwrap(), |v| serde_json::from_value::<Parameters>(v).is_ok()),
            ("Initializer (JSON)", serde_json::to_value(&f.initializers[0]).unwrap(), |v| serde_json::from_value::<Initializer>(v).is_ok()),
            ("MKProof (JSON)", serde_json::to_value(&mk_proof).unwrap(), |v| serde_json::from_value::<MKProof>(v).map(|p| { let _ = p.verify(); true }).unwrap_or(false)),
            ("CertificateMessage (JSON tree)", serde_json::to_value(&CertificateMessage::try_from(mithril_common::test::double::fake_data::certificate("h")).unwrap()).unwrap(), |v| serde_json::from_value::<CertificateMessage>(v).map(|m| { let _ = mithril_common::entities::Certificate::try_from(m); true }).unwrap_or(false)),
            // the JSON-hex key strings of mithril-common: the mutated document travels hex-encoded
            ("ProtocolMultiSignature (JSON hex tree)", aggv.clone(), |v| ProtocolMultiSignature::try_from(hex::encode(serde_json::to_vec(&v).unwrap()).as_str()).is_ok()),
            ("ProtocolSingleSignature (JSON hex tree)", serde_json::to_value(&sigs[0]).unwrap(), |v| ProtocolSingleSignature::try_from(hex::encode(serde_json::to_vec(&v).unwrap()).as_str()).is_ok()),
            ("ProtocolSignerVerificationKeyForConcatenation (JSON hex tree)", { let k = ProtocolSignerVerificationKeyForConcatenation::try_from(fake_keys::signer_verification_key()[0]).unwrap(); serde_json::from_slice(&hex::decode(k.to_json_hex().unwrap()).unwrap()).unwrap() }, |v| ProtocolSignerVerificationKeyForConcatenation::try_from(hex::encode(serde_json::to_vec(&v).unwrap()).as_str()).is_ok()),
            ("ProtocolAggregateVerificationKeyForConcatenation (JSON hex tree)", serde_json::to_value(&avk).unwrap(), |v| ProtocolAggregateVerificationKeyForConcatenation::try_from(hex::encode(serde_json::to_vec(&v).unwrap()).as_str()).is_ok()),
        ];
        let mut n_json = 0u64;
        for (name, honest, dec) in &jdecs {
            let hh = honest.clone(); let d = *dec;
            if guarded(&mut w, &mut sink, name, 100, &|| honest.to_string(), move || d(hh)) != Some(true) {
                let i = sink.next_index(); sink.sfail(i, "roundtrip", &format!("{}: the honest document is not accepted", name), name);
            }
            for m in j_mutations(honest) {
                n_json += 1;
                let text = m.to_string();
                let hx = || text.clone();
                let d = *dec;
                guarded(&mut w, &mut sink, name, text.len(), &hx, move || d(m));
            }
            {
                let hh = honest.clone(); let d = *dec;
                if guarded(&mut w, &mut sink, name, 100, &|| honest.to_string(), move || d(hh)) != Some(true) {
                    let i = sink.next_index(); sink.sfail(i, "history-dependent-decoder", &format!("{}: the honest document is refused after the mutated ones were decoded on the same thread", name), name);
                }
            }
        }
        sink.note("structure_aware_json_mutations", &n_json.to_string());
        let mut n_cbor = 0u64;
        for (name, honest, dec) in &decs {
            if honest.first() != Some(&1) { continue; }
            let tree: C = match ciborium::de::from_reader(&honest[1..]) { Ok(t) => t, Err(_) => continue };
            for m in c_mutations(&tree, 2) {
                n_cbor += 1;
                let mut b = vec![1u8]; b.extend(c_enc(&m));
                let hx = || hex(&b);
                let bb = b.clone();
                let ff = *dec;
                guarded(&mut w, &mut sink, name, b.len(), &hx, move || ff(&bb));
            }
            {
                let hb = honest.clone(); let ff = *dec;
                if guarded(&mut w, &mut sink, name, honest.len(), &|| hex(honest), move || ff(&hb)) != Some(true) {
                    let i = sink.next_index(); sink.sfail(i, "history-dependent-decoder", &format!("{}: the honest encoding is refused after the mutated documents were decoded on the same thread", name), &hex(honest));
                }
            }
        }
        sink.note("structure_aware_cbor_mutations", &n_cbor.to_string());
    }
    sink.note("decoder_calls_under_panic_hook_and_allocation_counter", &w.calls.to_string());
    sink.note("panics", &w.panics.to_string());
    sink.note("oversized_allocations", &w.big.to_string());

    // ---- (3) nested MKMapProof recursion depth, in a child process ------------------------------
    let depth = 200_000usize;
    let st = std::process::Command::new(std::env::current_exe().unwrap()).args(["--child", "mkmap", &depth.to_string()]).output();
    let crashed = st.map(|o| !o.status.success()).unwrap_or(false);
    sink.witness("C05-mkmap-depth", crashed, &format!("MKMapProof::<BlockRange>::from_bytes on a {}-fold nested empty proof ({} bytes): child process {}", depth, depth * 7 + 5, if crashed { "died (stack overflow)" } else { "returned" }));
    sink.finish();
}
