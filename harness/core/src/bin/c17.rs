//! C17 correspondence harness: real `SignedEntityConfig::time_point_to_signed_entity`
//! versus the Lean model `Beacon.entity`; S: margin / monotonicity / whole steps /
//! range boundary evaluated directly on the implementation's outputs.
use hutil::{catch, Args, Rng, Sink};
use mithril_common::entities::{
    BlockNumber, BlockNumberOffset, CardanoBlocksTransactionsSigningConfig,
    CardanoTransactionsSigningConfig, ChainPoint, Epoch, SignedEntityConfig, SignedEntityType,
    SignedEntityTypeDiscriminants as D, SlotNumber, TimePoint,
};
use std::collections::BTreeSet;

const DISCS: [D; 5] = [
    D::MithrilStakeDistribution,
    D::CardanoStakeDistribution,
    D::CardanoTransactions,
    D::CardanoBlocksTransactions,
    D::CardanoDatabase,
];

fn cfg(tx: Option<(u64, u64)>, btx: Option<(u64, u64)>) -> SignedEntityConfig {
    SignedEntityConfig {
        allowed_discriminants: BTreeSet::from(DISCS),
        cardano_transactions_signing_config: tx.map(|(s, st)| CardanoTransactionsSigningConfig {
            security_parameter: BlockNumberOffset(s),
            step: BlockNumber(st),
        }),
        cardano_blocks_transactions_signing_config: btx.map(|(s, st)| {
            CardanoBlocksTransactionsSigningConfig {
                security_parameter: BlockNumberOffset(s),
                step: BlockNumber(st),
            }
        }),
    }
}

fn tp(epoch: u64, imm: u64, block: u64) -> TimePoint {
    TimePoint::new(epoch, imm, ChainPoint::new(SlotNumber(block.wrapping_mul(3)), BlockNumber(block), "h"))
}

fn show(e: &SignedEntityType) -> String {
    match e {
        SignedEntityType::MithrilStakeDistribution(e) => format!("msd({})", e.0),
        SignedEntityType::CardanoStakeDistribution(e) => format!("csd({})", e.0),
        SignedEntityType::CardanoTransactions(e, b) => format!("ctx({},{})", e.0, b.0),
        SignedEntityType::CardanoBlocksTransactions(e, b, s) => format!("cbtx({},{},{})", e.0, b.0, s.0),
        SignedEntityType::CardanoDatabase(b) => format!("cdb({},{})", b.epoch.0, b.immutable_file_number),
    }
}

fn opt(p: Option<(u64, u64)>) -> String {
    match p {
        Some((a, b)) => format!("[{},{}]", a, b),
        None => "[]".into(),
    }
}

fn run_one(d: usize, epoch: u64, imm: u64, block: u64, tx: Option<(u64, u64)>, btx: Option<(u64, u64)>) -> (String, Option<SignedEntityType>) {
    let c = cfg(tx, btx);
    let t = tp(epoch, imm, block);
    match catch(move || c.time_point_to_signed_entity(DISCS[d], &t)) {
        Ok(Ok(e)) => (format!("ok {}", show(&e)), Some(e)),
        Ok(Err(_)) => ("err".into(), None),
        Err(_) => ("panic".into(), None),
    }
}

fn block_of(e: &Option<SignedEntityType>) -> Option<u64> {
    match e {
        Some(SignedEntityType::CardanoTransactions(_, b)) => Some(b.0),
        Some(SignedEntityType::CardanoBlocksTransactions(_, b, _)) => Some(b.0),
        _ => None,
    }
}

fn main() {
    hutil::quiet_panics();
    let args = Args::parse();
    let mut rng = Rng::new(args.seed);
    let mut sink = Sink::new(&args);
    let _ = Epoch(0);

    let grid: u64 = if args.thorough() { 64 } else { 24 };
    let bounds: Vec<u64> = vec![
        0, 1, 14, 15, 16, 29, 30, 31, 44, 45, 100, 1 << 32, 1 << 63,
        u64::MAX - 30, u64::MAX - 16, u64::MAX - 15, u64::MAX - 14, u64::MAX - 2, u64::MAX - 1, u64::MAX,
    ];

    // one K case + the S obligations on the implementation's own outputs
    let emit = |sink: &mut Sink, tag: &str, d: usize, epoch: u64, imm: u64, block: u64, sec: u64, step: u64| {
        if !sink.wanted() { sink.skip(); return; }
        let (tx, btx) = match d { 2 => (Some((sec, step)), None), 3 => (None, Some((sec, step))), _ => (None, None) };
        let (out, ent) = run_one(d, epoch, imm, block, tx, btx);
        let req = format!("c17.entity d={} epoch={} imm={} block={} tx={} btx={}", d, epoch, imm, block, opt(tx), opt(btx));
        let idx = sink.case(tag, &req, &out);
        if let Some(b) = block_of(&ent) {
            let margin = block.saturating_sub(sec);
            if b > margin {
                sink.sfail(idx, "margin", &format!("beacon {} above tip-sec {}", b, margin), &req);
            }
            // successor tip: monotone, whole steps
            if block < u64::MAX {
                let (_, ent2) = run_one(d, epoch, imm, block + 1, tx, btx);
                if let Some(b2) = block_of(&ent2) {
                    if b2 < b { sink.sfail(idx, "monotone", &format!("{} -> {} when tip {} -> {}", b, b2, block, block + 1), &req); }
                    if d == 3 {
                        let st = step.max(1);
                        if b % st != 0 || (b2 - b) % st != 0 { sink.sfail(idx, "whole-steps", &format!("b={} b2={} step={}", b, b2, st), &req); }
                    }
                }
            }
            if d == 2 {
                // adjusted step computed independently of the implementation
                let adj = std::cmp::max(step / 15 * 15, 15);
                if margin >= adj {
                    if (b as u128 + 1) % 15 != 0 { sink.sfail(idx, "range-boundary", &format!("b+1={} not a range start", b as u128 + 1), &req); }
                    if (b as u128 + 1) % (adj as u128) != 0 { sink.sfail(idx, "whole-steps", &format!("b+1={} not multiple of step {}", b as u128 + 1, adj), &req); }
                }
            }
        }
    };

    // exhaustive small grid for the two block-number entities
    for d in [2usize, 3] {
        for tip in 0..=grid {
            for sec in 0..=grid {
                for step in 0..=grid {
                    emit(&mut sink, "grid", d, 3, 7, tip, sec, step);
                }
            }
        }
    }
    // 64-bit boundary values in every coordinate
    for d in [2usize, 3] {
        for &tip in &bounds {
            for &sec in &bounds {
                for &step in &bounds {
                    emit(&mut sink, "boundary", d, 1, 1, tip, sec, step);
                }
            }
        }
    }
    // epoch / immutable based entities, epochs 0, 1, max
    for d in [0usize, 1, 4] {
        for &e in &[0u64, 1, 2, (1 << 63) - 1, 1 << 63, (1 << 63) + 1, u64::MAX - 1, u64::MAX] {
            for &imm in &[0u64, 1, u64::MAX] {
                emit(&mut sink, "epoch", d, e, imm, 100, 0, 0);
            }
        }
    }
    // missing configuration
    {
        for d in [2usize, 3] {
            if sink.wanted() {
                let (out, _) = run_one(d, 5, 5, 100, None, None);
                let req = format!("c17.entity d={} epoch=5 imm=5 block=100 tx=[] btx=[]", d);
                sink.case("noconfig", &req, &out);
            } else { sink.skip(); }
        }
    }
    // random 64-bit triples, mixed magnitudes
    let n = if args.thorough() { 400_000 } else { 20_000 };
    for _ in 0..n {
        let mag = |r: &mut Rng| -> u64 {
            match r.below(5) { 0 => r.below(64), 1 => r.below(100_000), 2 => r.u64() >> r.below(64), 3 => u64::MAX - r.below(64), _ => r.u64() }
        };
        let d = if rng.bool() { 2 } else { 3 };
        let (tip, sec, step) = (mag(&mut rng), mag(&mut rng), mag(&mut rng));
        let e = rng.below(10);
        emit(&mut sink, "random", d, e, rng.below(1000), tip, sec, step);
    }
    // list_allowed_signed_entity_types agrees with the per-discriminant function (purity / agreement)
    let mut list_mismatch = 0u64;
    for _ in 0..200 {
        let c = cfg(Some((rng.below(50), rng.below(100))), Some((rng.below(50), rng.below(100))));
        let t = tp(1 + rng.below(5), rng.below(100), rng.below(10_000));
        let l1 = c.list_allowed_signed_entity_types(&t).ok();
        let l2 = c.clone().list_allowed_signed_entity_types(&t.clone()).ok();
        let each: Option<Vec<SignedEntityType>> = c.list_allowed_signed_entity_types_discriminants().into_iter().map(|d| c.time_point_to_signed_entity(d, &t).ok()).collect();
        if l1 != l2 || l1 != each { list_mismatch += 1; }
    }
    if list_mismatch > 0 {
        let i = sink.next_index();
        sink.sfail(i, "pure", &format!("{} list/each mismatches", list_mismatch), "list_allowed_signed_entity_types");
    }
    sink.note("list_checks", "200");
    sink.finish();
}
